// dsim: deterministic simulation worker.
//   dsim run    --scenario S --seed-base B --first I --count K [--opt k=v ...] [--samples N]
//   dsim gen    --scenario S --seed X [--opt k=v ...]          (prints the plan)
//   dsim replay --plan FILE                                     (executes an explicit plan)
// One JSON line per run on stdout, flushed; "BEGIN <seed>" before each run so that the
// driver can attribute a worker death (sanitizer report, crash) to a seed.
#include "scen.h"
#include <cstdarg>
#include <fstream>
#include <unistd.h>
#include <malloc.h>
#include <pthread.h>
#include <sys/wait.h>
#if defined(__SANITIZE_ADDRESS__)
#include <sanitizer/lsan_interface.h>
#endif

#ifndef DSIM_BACKEND
#define DSIM_BACKEND "unknown"
#endif

namespace sim {
const char *g_backend = DSIM_BACKEND;
const char *g_variant = "unknown";

std::vector<const Scenario *> &scenario_list() { static std::vector<const Scenario *> v; return v; }
const Scenario *find_scenario(const std::string &name) {
    for (auto *s : scenario_list()) if (name == s->name) return s;
    return nullptr;
}
std::string fmt(const char *f, ...) {
    char b[1024]; va_list ap; va_start(ap, f); vsnprintf(b, sizeof b, f, ap); va_end(ap); return b;
}
ParamSpec spec_from_opts(const Op &opts, Rng &r) {
    std::string s = opts.gets("spec", "swarm");
    if (s == "P128") return ParamSpec::P128();
    if (s == "P80") return ParamSpec::P80();
    if (s.rfind("S:", 0) == 0) return ParamSpec::parse(s);
    int maxn = 64;
    size_t c = s.find(':');
    if (c != std::string::npos) maxn = atoi(s.c_str() + c + 1);
    if (opts.has("specpool")) {   // draw from a small pool so that generated keys are reused across runs of one worker
        Rng r2(mix64(opts.getu("keybase", 7) ^ 0x5bec, r.below(opts.getu("specpool", 8))));
        return draw_swarm_spec(r2, maxn);
    }
    return draw_swarm_spec(r, maxn);
}
SchedConfig sched_from_plan(const Plan &p) {
    SchedConfig c;
    c.seed = p.cfg.getu("sched_seed", p.seed);
    c.strategy = (int) p.cfg.geti("sched_strategy", 0);
    c.p_switch = p.cfg.getd("sched_p", 0.1);
    c.site_mask = (uint32_t) p.cfg.getu("sched_sites", 0xffffffffu);
    c.pct_depth = (int) p.cfg.geti("sched_pct_d", 2);
    c.pct_est_steps = p.cfg.getu("sched_pct_est", 4000);
    c.explicit_sched = p.explicit_sched;
    c.sw = p.sw;
    return c;
}
void sched_to_plan(Plan &p, Rng &r, int ntasks) {
    p.cfg.setu("sched_seed", r.next());
    int strat = r.bern(0.3) ? 1 : 0;
    p.cfg.seti("sched_strategy", strat);
    static const double ps[] = {0.01, 0.1, 0.3, 1.0};
    p.cfg.setd("sched_p", ps[r.below(4)]);
    // random subset of yield sites (swarm): always keep at least one fine-grained site
    uint32_t mask = (uint32_t) r.next() | (1u << (r.below(4)));
    if (r.bern(0.3)) mask = 0xffffffffu;
    p.cfg.setu("sched_sites", mask);
    p.cfg.seti("sched_pct_d", 1 + (int) r.below(3));
    p.cfg.setu("sched_pct_est", 500 + r.below(20000));
}
} // namespace sim

using namespace sim;

#if defined(__SANITIZE_ADDRESS__)
extern "C" __attribute__((used, visibility("default"))) const char *__asan_default_options() {
    return "exitcode=77:detect_leaks=1:leak_check_at_exit=0:handle_segv=0:handle_abort=0:allocator_may_return_null=1:detect_stack_use_after_return=0:malloc_context_size=12:max_malloc_fill_size=1073741824";
}
extern "C" __attribute__((used, visibility("default"))) const char *__ubsan_default_options() {
    return "print_stacktrace=1:halt_on_error=1:exitcode=77";
}
#endif

static std::string result_line(uint64_t seed, const Plan &plan, const RunResult &r, bool with_plan, bool with_sample) {
    JObj o;
    o.unum("seed", seed).str("scenario", plan.scenario).str("status", r.v.set ? "violation" : "ok");
    if (r.v.set) {
        JObj v; v.str("cls", r.v.cls).str("oracle", r.v.oracle).str("detail", r.v.detail).num("op", r.v.op_index);
        o.raw("viol", v.done());
    }
    o.map("faults", r.faults.m).map("probes", r.probes.m);
    o.str("evhash", hex64(r.ev.get())).unum("steps", r.steps).unum("switches", r.switches).str("sched_hash", hex64(r.sched_hash));
    o.num("nontrivial", r.nontrivial ? 1 : 0).str("case_hash", hex64(r.case_hash));
    if (with_sample || r.v.set) o.str("sample", r.sample);
    if (!r.stats.empty()) { JObj s; for (auto &p : r.stats) s.dbl(p.first, p.second); o.raw("stats", s.done()); }
    if (!g_other_oracles.empty()) {
        JObj oo; for (auto &p : g_other_oracles) oo.unum(p.first, p.second); o.raw("other_oracles", oo.done());
        JObj od; for (auto &p : g_other_oracle_detail) od.str(p.first, p.second.substr(0, 300)); o.raw("other_oracle_detail", od.done());
        g_other_oracles.clear(); g_other_oracle_detail.clear();
    }
    if (!r.known.empty()) { std::string a = "["; for (size_t i = 0; i < r.known.size(); i++) a += (i ? ",\"" : "\"") + jesc(r.known[i]) + "\""; o.raw("known", a + "]"); }
    if (with_plan || r.v.set) o.str("plan", (r.v.set && !r.explicit_plan.empty()) ? r.explicit_plan : plan.str());
    return o.done();
}

// Dirty memory (buggify: an allocator may legally return recycled memory): glibc fills every fresh allocation with the
// complement of this byte and every freed block with the byte itself, so that a read of uninitialised heap memory gives
// the same value in the original run and in a fresh-process replay, and a different one under another pattern.
static void apply_perturb(const Plan &p) {
#if !defined(__SANITIZE_ADDRESS__) && !defined(__SANITIZE_THREAD__)
    mallopt(M_PERTURB, (int) p.cfg.geti("perturb", 0));
#endif
}

// threadrun mode: every run executes in its own short-lived thread and the main thread never touches the library
// (a dispatcher that hands each job to a fresh worker thread): per-thread FFT state is created and destroyed once per run.
struct ThreadRun { const Scenario *s; const Plan *p; RunResult *r; };
static void *thread_run_main(void *v) { ThreadRun *t = (ThreadRun *) v; t->s->exec(*t->p, *t->r); return nullptr; }
static void exec_maybe_in_thread(const Scenario *s, const Plan &p, RunResult &r) {
    begin_run();
    if (!p.cfg.geti("threadrun")) { s->exec(p, r); return; }
    // the plan is executed twice, in two successive threads (the first has exited before the second starts), so that one plan
    // carries the whole thread create/exit history and replays on its own
    RunResult first;
    ThreadRun t0{s, &p, &first};
    run_in_thread(thread_run_main, &t0);
    ThreadRun t{s, &p, &r};
    run_in_thread(thread_run_main, &t);
    r.probes.add("run_in_fresh_thread");
    if (first.v.set && !r.v.set) r.v = first.v;
    if (!r.v.set && first.ev.get() != r.ev.get())
        r.v.raise("thread-dependent", "C16.thread-rerun", "the same sequence gives different observable results in a second short-lived thread after the first one has exited");
#if defined(__SANITIZE_ADDRESS__)
    // the thread is gone: nothing it allocated in its thread_local constructors may be alive
    if (!r.v.set && __lsan_do_recoverable_leak_check()) r.v.raise("leak", "C16.leak-thread-exit", "LeakSanitizer: per-thread state is still allocated (unreachable) after the thread that ran the sequence has exited");
#endif
}

// driver-level settings that belong to the plan (so that `gen` and `run` produce the same self-contained plan)
static void finalize_plan(Plan &p, const Op &opts, uint64_t sd) {
    if (!p.cfg.has("perturb")) p.cfg.seti("perturb", opts.has("perturb") ? opts.geti("perturb") : 1 + (int64_t) (sd % 255));
    if (opts.geti("threadrun")) p.cfg.seti("threadrun", 1);
}

int main(int argc, char **argv) {
    setvbuf(stdout, nullptr, _IOLBF, 1 << 16);
    install_signal_handlers();
    std::string mode = argc > 1 ? argv[1] : "";
    std::string scen, planfile;
    uint64_t base = 1, first = 0, count = 1, seed = 0;
    std::vector<uint64_t> index_list;   // explicit run indices (process-history replays): executed in this order in this one process
    int samples = 3;
    Op opts; opts.kind = "opts";
    for (int i = 2; i < argc; i++) {
        std::string a = argv[i];
        auto next = [&]() -> std::string { if (i + 1 >= argc) { fprintf(stderr, "missing value for %s\n", a.c_str()); exit(2); } return argv[++i]; };
        if (a == "--scenario") scen = next();
        else if (a == "--seed-base") base = strtoull(next().c_str(), 0, 0);
        else if (a == "--first") first = strtoull(next().c_str(), 0, 0);
        else if (a == "--count") count = strtoull(next().c_str(), 0, 0);
        else if (a == "--list") { std::string v = next(), tok; std::istringstream is(v); while (std::getline(is, tok, ',')) if (!tok.empty()) index_list.push_back(strtoull(tok.c_str(), 0, 0)); }
        else if (a == "--seed") seed = strtoull(next().c_str(), 0, 0);
        else if (a == "--plan") planfile = next();
        else if (a == "--samples") samples = atoi(next().c_str());
        else if (a == "--backend") { static std::string v; v = next(); g_backend = v.c_str(); }
        else if (a == "--variant") { static std::string v; v = next(); g_variant = v.c_str(); }
        else if (a == "--opt") { std::string kv = next(); size_t e = kv.find('='); opts.set(kv.substr(0, e), e == std::string::npos ? "" : kv.substr(e + 1)); }
        else if (a == "--oracles") { std::string v = next(), tok; std::istringstream is(v); while (std::getline(is, tok, ',')) if (!tok.empty()) g_oracle_filter.push_back(tok); }
        else { fprintf(stderr, "unknown argument %s\n", a.c_str()); return 2; }
    }
    if (mode == "list") { for (auto *s : scenario_list()) printf("%s\n", s->name); return 0; }
    if (mode == "replay") {
        std::ifstream in(planfile);
        if (!in) { fprintf(stderr, "cannot read %s\n", planfile.c_str()); return 2; }
        std::stringstream ss; ss << in.rdbuf();
        Plan p = Plan::parse(ss.str());
        const Scenario *s = find_scenario(p.scenario);
        if (!s) { fprintf(stderr, "unknown scenario %s\n", p.scenario.c_str()); return 2; }
        printf("BEGIN %llu\n", (unsigned long long) p.seed); fflush(stdout);
        RunResult r;
        apply_perturb(p);
        exec_maybe_in_thread(s, p, r);
        printf("%s\n", result_line(p.seed, p, r, false, true).c_str());
        fflush(stdout);
        _exit(r.v.set ? 1 : 0);
    }
    const Scenario *s = find_scenario(scen);
    if (!s) { fprintf(stderr, "unknown scenario '%s'\n", scen.c_str()); return 2; }
    if (mode == "gen") { Plan p = s->gen(seed, opts); finalize_plan(p, opts, seed); fputs(p.str().c_str(), stdout); return 0; }
    if (mode != "run") { fprintf(stderr, "usage: dsim run|gen|replay|list ...\n"); return 2; }
    int viol = 0;
    if (index_list.empty()) for (uint64_t i = first; i < first + count; i++) index_list.push_back(i);
    for (size_t li = 0; li < index_list.size(); li++) {
        uint64_t i = index_list[li];
        uint64_t sd = mix64(base, i);
        printf("BEGIN %llu\n", (unsigned long long) sd); fflush(stdout);
        opts.setu("run_index", i);
        if (opts.geti("fork")) {
            // one child process per run: import attempts that end in abort / null-dereference are left by siglongjmp and
            // leak whatever the importer had allocated (hundreds of MB over a truncation sweep); the child's exit returns it
            fflush(stdout);
            pid_t pid = fork();
            if (pid == 0) {
                Plan p = s->gen(sd, opts);
                finalize_plan(p, opts, sd);
                RunResult r;
                apply_perturb(p);
                exec_maybe_in_thread(s, p, r);
                printf("%s\n", result_line(sd, p, r, (int) li < samples, (int) li < samples).c_str());
                fflush(stdout);
                _exit(r.v.set ? 1 : 0);
            }
            int st = 0; waitpid(pid, &st, 0);
            if (WIFSIGNALED(st) || (WIFEXITED(st) && WEXITSTATUS(st) > 1)) {   // the child died inside the run: die the same way so that the driver classifies it
                fflush(stdout);
                if (WIFSIGNALED(st)) { signal(WTERMSIG(st), SIG_DFL); raise(WTERMSIG(st)); }
                _exit(WEXITSTATUS(st));
            }
            if (WIFEXITED(st) && WEXITSTATUS(st) == 1) viol++;
            continue;
        }
        Plan p = s->gen(sd, opts);
        finalize_plan(p, opts, sd);
        RunResult r;
        apply_perturb(p);
        exec_maybe_in_thread(s, p, r);
        if (r.v.set) viol++;
        printf("%s\n", result_line(sd, p, r, (int) li < samples, (int) li < samples).c_str());
        fflush(stdout);
        if (r.v.set && r.v.cls == "leak") {   // leaked blocks would be reported again by every later leak check of this process
            printf("RESTART\n"); fflush(stdout); _exit(0);
        }
    }
    printf("END %d\n", viol);
    fflush(stdout);
    _exit(0);   // skip static destructors (thread_local FFT state of the main thread etc.)
}
