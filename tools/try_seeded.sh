#!/bin/bash
# Runs checks against a seeded change without touching /repo: a scratch worktree of /repo HEAD gets the patch,
# the checks build from it (VERIF_REPO) and write evidence/replays to a scratch directory (VERIF_OUT).
#   tools/try_seeded.sh <seeded-id> <property> [more properties...]
set -u
ID=$1; shift
VERIF=$(cd "$(dirname "$0")/.." && pwd)
WT=/tmp/seedrun-$ID
OUTD=/tmp/seedout-$ID
rm -rf "$OUTD"; mkdir -p "$OUTD"
git -C /repo worktree remove --force "$WT" >/dev/null 2>&1
git -C /repo worktree add -q --detach "$WT" HEAD || exit 2
( cd "$WT" && git apply "$VERIF/seeded/$ID/patch.diff" ) || { echo "patch does not apply"; git -C /repo worktree remove --force "$WT"; exit 2; }
for P in "$@"; do
  t0=$(date +%s)
  VERIF_REPO=$WT VERIF_OUT=$OUTD python3 "$VERIF/tools/check.py" "$P" --tier "${TIER:-quick}" > "$OUTD/$P.out" 2> "$OUTD/$P.err"; rc=$?
  nv=$(grep -c '^VIOLATION' "$OUTD/$P.out")
  first=$(grep -A1 '^VIOLATION' "$OUTD/$P.out" | sed -n 2p | cut -c1-220)
  echo "SEEDED $ID check=$P rc=$rc violations=$nv secs=$(( $(date +%s) - t0 )) :: $first"
done
# drop the build cache of the scratch tree (hundreds of MB per seeded change)
TH=$(VERIF_REPO=$WT python3 -c "import sys; sys.path.insert(0,'$VERIF/tools'); import build; print(build.tree_hash())" 2>/dev/null)
[ -n "$TH" ] && rm -rf "$VERIF/.cache/$TH"
git -C /repo worktree remove --force "$WT"
