"""Per-property recipes: which simulated batches decide each property, and the
batch-level (statistical) oracles.  See DESIGN.md section 5."""
import math

BACKENDS = ["spqlios-fma", "spqlios-avx", "nayuki-avx", "nayuki-portable", "fftw"]
# relative cost of one default-set gate per back-end (measured, optim): used to scale counts
SPEED = {"spqlios-fma": 1.0, "spqlios-avx": 1.1, "nayuki-avx": 2.5, "fftw": 2.0, "nayuki-portable": 6.0}


def B(name, scenario, backend, variant, count, **opts):
    extra = {}
    for k in ("weight", "max_procs", "timeout", "env", "det_count", "no_determinism", "wrapper"):
        if k in opts:
            extra[k] = opts.pop(k)
    d = {"name": name, "scenario": scenario, "backend": backend, "variant": variant, "count": int(count), "opts": opts}
    d.update(extra)
    return d


# ----------------------------------------------------------------------------- C01
def c01_batches(tier):
    q = tier == "quick"
    bs = []
    for be in BACKENDS:
        for var in ("optim", "debug"):
            slow = 1.0 if var == "optim" else 0.35
            bs.append(B("table-swarm-%s-%s" % (be, var), "gates", be, var, (300 if q else 3000) * slow, spec="swarm:48", mode="table",
                        specpool=10 if q else 60, nkeys=2, stats=0, weight=30 if q else 300))
    for spec in ("P128", "P80"):
        for be in BACKENDS:
            n = (24 if q else 400) / SPEED[be]
            bs.append(B("table-%s-%s-optim" % (spec, be), "gates", be, "optim", max(3, n), spec=spec, mode="table", nkeys=1 if q else 20,
                        stats=0, weight=60 if q else 600, det_count=1 if q else 4))
            if not q:
                bs.append(B("table-%s-%s-debug" % (spec, be), "gates", be, "debug", max(20, 60 / SPEED[be]), spec=spec, mode="table", nkeys=2,
                            stats=0, weight=600, det_count=1))
        if q:
            bs.append(B("table-%s-spqlios-fma-debug" % spec, "gates", "spqlios-fma", "debug", 3, spec=spec, mode="table", nkeys=1, stats=0,
                        weight=60, det_count=1))
    # input dimension larger than the ring degree (gadget and noise levels of the default 128-bit set with n = 1100 and n = 1025)
    for be in BACKENDS:
        for nn in (1100, 1025):
            bs.append(B("table-n%d-%s-optim" % (nn, be), "gates", be, "optim", max(2, (4 if q else 40) / SPEED[be]),
                        spec="S:n%d:N1024:k1:l3:B7:t8:b2:aks3.0517578125e-05:abk2.98023223876953125e-08:amax0.012467" % nn, mode="table", nkeys=1, stats=0,
                        weight=60 * SPEED[be], det_count=1, max_procs=2))
    return bs


# ----------------------------------------------------------------------------- C05
TINY = "S:n2:N1024:k1:l1:B8:t1:b1:aks1e-9:abk1e-9:amax0.01"


def c05_batches(tier):
    q = tier == "quick"
    bs = []
    for be in BACKENDS:
        for var in ("optim", "debug"):
            bs.append(B("io-swarm-%s-%s" % (be, var), "io", be, var, 250 if q else 4000, spec="swarm:8", specpool=4, nkeys=2, weight=20 if q else 200))
            bs.append(B("restart-swarm-%s-%s" % (be, var), "gates", be, var, (60 if q else 1200) * (1 if var == "optim" else 0.4), spec="swarm:24",
                        specpool=6, nkeys=2, mode="netlist", gates=16, pfault=0.9, stats=0, weight=25 if q else 250))
    for spec in ("P128", "P80"):
        bs.append(B("io-%s-spqlios-fma-optim" % spec, "io", "spqlios-fma", "optim", 3 if q else 24, spec=spec, nkeys=1, maxobj=4, weight=80 if q else 400,
                    det_count=1, max_procs=3))
        for kind in ("CloudKeySet", "SecretKeySet"):
            bs.append(B("io-%s-%s" % (spec, kind), "io", "spqlios-fma" if kind == "CloudKeySet" else "fftw", "optim", 1 if q else 6, spec=spec, nkeys=1, maxobj=1,
                        kind=kind, weight=80 if q else 300, det_count=1, max_procs=2))
        bs.append(B("restart-%s-spqlios-fma-optim" % spec, "gates", "spqlios-fma", "optim", 3 if q else 40, spec=spec, nkeys=1, mode="netlist",
                    gates=8, pfault=1.0, stats=0, weight=80 if q else 400, det_count=1, max_procs=3))
        if not q:
            for be in BACKENDS[1:]:
                bs.append(B("io-%s-%s-optim" % (spec, be), "io", be, "optim", 6, spec=spec, nkeys=1, maxobj=4, weight=200, det_count=1, max_procs=3))
                bs.append(B("restart-%s-%s-optim" % (spec, be), "gates", be, "optim", 8, spec=spec, nkeys=1, mode="netlist", gates=8, pfault=1.0,
                            stats=0, weight=200, det_count=1, max_procs=3))
    return bs


# ----------------------------------------------------------------------------- C06
def c06_batches(tier):
    q = tier == "quick"
    bs = []
    for be in BACKENDS:
        for var in ("optim", "debug"):
            cnt = (260 if q else 8000) * (1 if var == "optim" else 0.35) / (1.5 if be == "nayuki-portable" else 1)
            bs.append(B("conc-swarm-%s-%s" % (be, var), "conc", be, var, cnt, spec="swarm:16", specpool=4, nkeys=2, maxw=8, weight=30 if q else 300))
        bs.append(B("conc-wide-%s-optim" % be, "conc", be, "optim", 12 if q else 400, spec="swarm:4", specpool=2, nkeys=1, maxw=64, maxops=2, w=64 if q else 48,
                    phist=0.2, weight=30 if q else 300, det_count=2))
    # thread create/exit histories: the worker's main thread never touches the library, set-up runs in a thread that exits before
    # the tasks start, tasks exit at different times while others keep evaluating (plain and ASan builds)
    for be in BACKENDS:
        bs.append(B("conc-threads-%s-optim" % be, "conc", be, "optim", 40 if q else 1500, spec="swarm:8", specpool=2, nkeys=1, maxw=6, threadrun=1, psetup=1.0,
                    weight=20 if q else 200))
        bs.append(B("conc-threads-%s-optim-asan" % be, "conc", be, "optim-asan", 10 if q else 300, spec="swarm:6", specpool=2, nkeys=1, maxw=5, threadrun=1, psetup=1.0,
                    weight=20 if q else 200, max_procs=2))
    # cold processes: one process per run that has never touched the FFT layer (keys, inputs and the sequential reference come from
    # a forked helper); a loader task imports the key, then the tasks' first transforms are the first ones of the process.  The
    # library's calls of sin/cos/sincos (twiddle tables being computed) are scheduling points.
    for be in BACKENDS:
        bs.append(B("conc-cold-%s-optim" % be, "conc", be, "optim", 40 if q else 1500, spec="swarm:12", specpool=3, nkeys=1, maxw=6, cold=1, fork=1,
                    weight=15 if q else 150, det_count=4))
        bs.append(B("conc-cold-%s-debug" % be, "conc", be, "debug", 12 if q else 300, spec="swarm:8", specpool=2, nkeys=1, maxw=5, cold=1, fork=1,
                    weight=15 if q else 150, det_count=2))
    # auxiliary: free-running threads under ThreadSanitizer (races inside straight-line code cannot be scheduled at interposed calls)
    for be in (["spqlios-fma", "nayuki-portable", "fftw"] if q else BACKENDS):
        bs.append(B("stress-tsan-%s" % be, "stress", be, "optim-tsan", 4 if q else 200, spec="swarm:6", specpool=2, nkeys=1, maxw=8, weight=25 if q else 250,
                    no_determinism=True, max_procs=2 if q else 6))
    for spec in ("P128", "P80"):
        bs.append(B("conc-%s-spqlios-fma-optim" % spec, "conc", "spqlios-fma", "optim", 6 if q else 60, spec=spec, nkeys=1, maxw=4, maxops=2, pchurn=0.3, ploader=0.0, phist=0.6,
                    weight=80 if q else 400, det_count=1, max_procs=4 if q else 8))
        if not q:
            for be in BACKENDS[1:]:
                bs.append(B("conc-%s-%s-optim" % (spec, be), "conc", be, "optim", 12, spec=spec, nkeys=1, maxw=4, maxops=2, ploader=0.1, weight=300, det_count=1, max_procs=6))
    return bs


# ----------------------------------------------------------------------------- C02
NOISE_BOUND = {"P128": 0.0037, "P80": 0.0047}


def c02_batches(tier):
    q = tier == "quick"
    bs = []
    for be in BACKENDS:
        for var in ("optim", "debug"):
            slow = 1.0 if var == "optim" else 0.4
            bs.append(B("netlist-swarm-%s-%s" % (be, var), "gates", be, var, (80 if q else 3000) * slow, spec="swarm:24", specpool=6, nkeys=2, mode="netlist",
                        gates=32 if q else 40, pfault=0.3, stats=0, weight=30 if q else 300))
        bs.append(B("deep-swarm-%s-optim" % be, "gates", be, "optim", 4 if q else 40, spec="swarm:8", specpool=2, nkeys=1, mode="netlist", shape=1,
                    gates=200 if q else 5000, mingates=200 if q else 5000, pfault=0.1, crash=0, stats=0, weight=30 if q else 600, det_count=1))
    for spec in ("P128", "P80"):
        confs = [("spqlios-fma", "optim")] if q else [(be, var) for be in BACKENDS for var in ("optim", "debug")]
        for be, var in confs:
            sp = SPEED[be] * (1 if var == "optim" else 8)
            # thorough: about 2*10^4 bootstrapped outputs per optim configuration (>= 10^4 binary), a seventh of that on debug builds
            f = 1.0 if q else (1.0 if var == "optim" else 0.15)
            nk = 2 if q else (4 if var == "optim" else 2)
            # statistics batches: binary gates, MUX-heavy netlists, deep chains (depth >= 50), maximal admissible input noise
            bs.append(B("stat-mixed-%s-%s-%s" % (spec, be, var), "gates", be, var, (220 if q else 320) * f, spec=spec, nkeys=nk, mode="netlist", gates=24, mingates=20,
                        muxbias=0.6, pfault=0.6, crash=0, stats=1, weight=220 * sp, det_count=1, no_determinism=not q))
            bs.append(B("stat-fresh-%s-%s-%s" % (spec, be, var), "gates", be, var, (600 if q else 1000) * f, spec=spec, nkeys=nk, mode="table", prov=0, dev=0,
                        stats=1, weight=160 * sp, det_count=1, no_determinism=not q))
            bs.append(B("stat-max-%s-%s-%s" % (spec, be, var), "gates", be, var, (600 if q else 1000) * f, spec=spec, nkeys=nk, mode="table", dev=3,
                        stats=1, weight=200 * sp, det_count=1, no_determinism=not q))
            bs.append(B("stat-deep-%s-%s-%s" % (spec, be, var), "gates", be, var, (30 if q else 44) * f, spec=spec, nkeys=nk, mode="netlist", shape=1, gates=150,
                        mingates=150, pfault=0.0, crash=0, stats=1, weight=200 * sp, det_count=1, no_determinism=not q))
    return bs


def _sd(st, key):
    n = st.get(key + ".n", 0)
    if n < 2:
        return n, 0.0, 0.0
    mean = st[key + ".s1"] / n
    var = max(0.0, st[key + ".s2"] / n - mean * mean)
    return n, mean, math.sqrt(var)


def c02_judge(tier, batches, results, cov, judged):
    """noise invariants (b) and input independence (c) on the default sets; a statistic is judged only with >= 2500 outputs and a
    violation is raised only when the estimate exceeds the bound by more than 4 estimator sigma"""
    out = []
    groups = {}
    for b, pb in zip(batches, cov["per_batch"]):
        if not b["name"].startswith("stat-"):
            continue
        for k, v in pb["stats"].items():
            if not k.startswith("K"):
                continue
            kid, rest = k.split(".", 1)
            for keyid in (kid, "pooled"):     # judged per key seed (the property quantifies over keys) and pooled
                g = groups.setdefault((b["opts"]["spec"], b["backend"], b["variant"], keyid), {})
                if rest.endswith(".max"):
                    g[rest] = max(g.get(rest, 0.0), v)
                else:
                    g[rest] = g.get(rest, 0.0) + v
    for (spec, be, var, keyid), st in sorted(groups.items()):
        name = "%s/%s/%s/%s" % (spec, be, var, keyid)
        for cls, mult in (("bin", 1.0), ("mux", 1.35)):
            n, mean, sd = _sd(st, cls)
            bound = NOISE_BOUND[spec] * mult
            j = {"outputs": int(n), "mean": mean, "sd": sd, "max_abs": st.get(cls + ".max", 0.0), "bound_sd": bound, "bound_mean": 0.25 * bound, "judged": n >= 2500}
            judged["%s %s" % (name, cls)] = j
            if n < 2500:
                continue
            se_sd = sd / math.sqrt(2 * n)
            se_mean = sd / math.sqrt(n)
            if sd > bound + 4 * se_sd:
                out.append({"oracle": "C02.sd", "detail": "%s %s gates: stdev of the output phase error %.5f > bound %.5f (n=%d, 4 sigma margin %.5f)" % (name, cls, sd, bound, n, 4 * se_sd)})
            if abs(mean) > 0.25 * bound + 4 * se_mean:
                out.append({"oracle": "C02.mean", "detail": "%s %s gates: mean output phase error %.6f exceeds 0.25*bound = %.6f (n=%d)" % (name, cls, mean, 0.25 * bound, n)})
            # input independence: for every input class the same bounds must hold, and the class variance must not differ from the
            # pooled variance by more than 8 estimator sigma AND 25 % (a small dependence on the rotation amount exists on the
            # unchanged tree: the truncating gadget decomposition makes the extracted coefficient's bias depend on the partial
            # rotations; measured 10 % in stdev for inputs pushed to the decision boundary)
            for ic in ("fresh", "boot", "deep", "max"):
                m, imean, isd = _sd(st, cls + "." + ic)
                if m < 1500:
                    judged["%s %s class %s" % (name, cls, ic)] = {"outputs": int(m), "judged": False}
                    continue
                v_all, v_c = sd * sd, isd * isd
                se = v_all * math.sqrt(2.0 / m + 2.0 / n)
                judged["%s %s class %s" % (name, cls, ic)] = {"outputs": int(m), "mean": imean, "sd": isd, "pooled_sd": sd, "z": (v_c - v_all) / se if se else 0.0, "judged": True}
                if isd > bound + 4 * isd / math.sqrt(2 * m):
                    out.append({"oracle": "C02.sd", "detail": "%s %s gates, input class '%s': stdev %.5f > bound %.5f (n=%d)" % (name, cls, ic, isd, bound, m)})
                if abs(imean) > 0.25 * bound + 4 * isd / math.sqrt(m):
                    out.append({"oracle": "C02.mean", "detail": "%s %s gates, input class '%s': mean %.6f exceeds 0.25*bound %.6f (n=%d)" % (name, cls, ic, imean, 0.25 * bound, m)})
                if abs(v_c - v_all) > 8 * se and abs(v_c - v_all) > 0.25 * v_all * 2:
                    out.append({"oracle": "C02.independence", "detail": "%s %s gates: stdev %.5f for input class '%s' (n=%d) differs from the pooled %.5f by more than 8 sigma and 25 %%" % (name, cls, isd, ic, m, sd)})
        # slope of e^2 against depth over chains (binary gates)
        n = st.get("chain.n", 0)
        if n >= 2500:
            sd_, sdd, se_, sde = st["chain.sd"], st["chain.sdd"], st["chain.se"], st["chain.sde"]
            vd = sdd / n - (sd_ / n) ** 2
            if vd > 0:
                slope = (sde / n - (sd_ / n) * (se_ / n)) / vd
                e2 = se_ / n
                ve2 = max(st.get("chain.s4", 0.0) / n - e2 * e2, 2 * e2 * e2)
                se_slope = math.sqrt(ve2 / (n * vd))
                judged["%s depth-slope" % name] = {"outputs": int(n), "slope_per_level": slope, "se": se_slope, "mean_e2": e2, "growth_over_100_levels": 100 * slope / e2, "judged": True}
                if abs(slope) > 8 * se_slope and abs(100 * slope) > 0.5 * e2:
                    out.append({"oracle": "C02.depth", "detail": "%s: squared output error changes with depth: slope %.3g per level (8 sigma = %.3g, mean e^2 %.3g)" % (name, slope, 8 * se_slope, e2)})
    return out


# ----------------------------------------------------------------------------- C07 / C03
ALPHAS7 = [9.313225746154785e-10, 7.450580596923828e-09, 2.98023223876953125e-08, 7.18e-9, 4.76837158203125e-07, 3.0517578125e-05, 2.44e-5, 0.0009765625, 0.012467, 0.03125]


def c07_batches(tier):
    q = tier == "quick"
    bs = []
    for be in BACKENDS:
        for var in ("optim", "debug"):
            bs.append(B("rand-swarm-%s-%s" % (be, var), "rand", be, var, (90 if q else 3000) * (1 if var == "optim" else 0.5), spec="swarm:24", nops=5, weight=20 if q else 200))
    for spec in ("P128", "P80"):
        for be in (["spqlios-fma"] if q else BACKENDS):
            bs.append(B("rand-%s-%s-optim" % (spec, be), "rand", be, "optim", 2 if q else 10, spec=spec, ops="keys,gate", nops=3, weight=100 if q else 300, det_count=1,
                        max_procs=2 if q else 5))
    return bs


def c07_judge(tier, batches, results, cov, judged):
    out = []
    st = {}
    for pb in cov["per_batch"]:
        for k, v in pb["stats"].items():
            st[k] = st.get(k, 0.0) + v
    keys = sorted(set(k.rsplit(".", 1)[0] for k in st if k.startswith("z.")))
    for key in keys:
        n = st.get(key + ".n", 0)
        parts = key.split(".")
        kind = parts[1]
        if kind in ("lwe", "tlwe", "tgsw"):
            alpha = ALPHAS7[int(parts[2])]
        else:
            alpha = float(".".join(parts[3:]))
        if n < 5000 or alpha <= 0:
            judged[key] = {"n": int(n), "judged": False}
            continue
        su = alpha * 4294967296.0
        mean = st[key + ".s1"] / n
        var = st[key + ".s2"] / n - mean * mean
        kurt = (st[key + ".s4"] / n) / (var * var) - 3 if var > 0 else 0.0
        c = 1.5 if kind in ("tlwe", "tgsw", "bkrow") else 0.0   # rounding of the FFT product inside TLWE encryption (measured 0.6 unit^2)
        lo = max(0.0, 1 - 0.8 / su + 1 / (3 * su * su)) if su >= 2 else 0.0   # sampler truncates towards zero (model valid for sigma >= 2 units)
        hi = 1 + (1.0 / 12 + c) / (su * su)                      # round-to-nearest model (+ FFT rounding)
        se = max(var, 1e-9) * math.sqrt((2.0 + max(kurt, 0.0)) / n)
        ok_var = lo - 8 * se <= var <= hi + 8 * se
        ok_mean = abs(mean) <= 8 * math.sqrt(max(var, 1e-12) / n) + 0.5 / su
        ok_kurt = su < 64 or abs(kurt) <= 8 * math.sqrt(24.0 / n) + 0.02 + 2.0 / su   # floor: discretisation and FFT-rounding mixture
        judged[key] = {"n": int(n), "alpha": alpha, "mean_z": mean, "var_z": var, "excess_kurtosis": kurt, "accept_var": [lo - 8 * se, hi + 8 * se], "judged": True}
        if not ok_var:
            out.append({"oracle": "C07.variance", "detail": "%s: variance of phase error / alpha^2 = %.4f outside [%.4f, %.4f] (alpha=%.3g, n=%d)" % (key, var, lo - 8 * se, hi + 8 * se, alpha, n)})
        if not ok_mean:
            out.append({"oracle": "C07.mean", "detail": "%s: mean phase error %.4f alpha is not centred (n=%d)" % (key, mean, n)})
        if not ok_kurt:
            out.append({"oracle": "C07.kurtosis", "detail": "%s: excess kurtosis %.3f (n=%d): not gaussian" % (key, kurt, n)})
    for mk in sorted(set(k.rsplit(".", 1)[0] for k in st if k.startswith("mask."))):
        words = st.get(mk + ".words", 0)
        if words < 20000:
            continue
        exp = words * 4 / 256.0
        chi2 = sum((st.get("%s.h%d" % (mk, b), 0.0) - exp) ** 2 / exp for b in range(256))
        lagn = st.get(mk + ".lagn", 0)
        lags = [(st.get("%s.lag%d" % (mk, k), 0.0) / max(lagn, 1)) * 3.0 for k in (1, 2, 3, 4)]
        judged[mk] = {"words": int(words), "chi2_bytes": chi2, "lag_correlations": lags, "judged": True}
        if chi2 > 255 + 8 * math.sqrt(510):
            out.append({"oracle": "C07.mask-uniform", "detail": "%s: byte histogram chi^2 = %.1f (255 dof) over %d mask words" % (mk, chi2, words)})
        for k, cval in enumerate(lags):
            if lagn > 1000 and abs(cval) > 8 / math.sqrt(lagn):
                out.append({"oracle": "C07.mask-correlation", "detail": "%s: lag-%d correlation %.4f over %d words" % (mk, k + 1, cval, lagn)})
    for kb in ("keybits.lwe", "keybits.ring"):
        n = st.get(kb + ".n", 0)
        if n >= 2000:
            f = st[kb + ".ones"] / n
            judged[kb] = {"bits": int(n), "fraction_ones": f, "judged": True}
            if abs(f - 0.5) > 8 * 0.5 / math.sqrt(n):
                out.append({"oracle": "C07.key-balance", "detail": "%s: fraction of ones %.4f over %d bits" % (kb, f, n)})
    return out


def c03_batches(tier):
    q = tier == "quick"
    bs = []
    for be in BACKENDS:
        for var in ("optim", "debug"):
            bs.append(B("enc-swarm-%s-%s" % (be, var), "enc", be, var, (150 if q else 4000) * (1 if var == "optim" else 0.5), spec="swarm:24", specpool=6, nkeys=2, nops=8,
                        weight=20 if q else 200))
    for spec in ("P128", "P80"):
        bs.append(B("enc-%s" % spec, "enc", "spqlios-fma", "optim", 6 if q else 60, spec=spec, nkeys=1, ops="gate", nops=4, weight=60, det_count=1, max_procs=2 if q else 6))
    return bs


# ----------------------------------------------------------------------------- C04 / C08 / C09 / C15 (lower-level clients)
def low_batches(tier, ops, name, cnt_q, cnt_t, with_gates=True, default_ops=None, limit_nayuki_debug=False):
    q = tier == "quick"
    bs = []
    for be in BACKENDS:
        for var in ("optim", "debug"):
            slow = 1.0 if var == "optim" else 0.4
            extra = {}
            if limit_nayuki_debug and var == "debug" and be.startswith("nayuki"):
                # known finding (C09): these builds abort on Bgbit >= 16 before any other oracle can run
                extra["xBmax"] = 10
            bs.append(B("%s-swarm-%s-%s" % (name, be, var), "low", be, var, (cnt_q if q else cnt_t) * slow, spec="swarm:12", specpool=4, nkeys=2, ops=ops,
                        nops=6, weight=30 if q else 300, **extra))
            if with_gates:
                bs.append(B("gates-swarm-%s-%s" % (be, var), "gates", be, var, (60 if q else 1500) * slow, spec="swarm:32", specpool=8, nkeys=2, mode="table",
                            stats=0, weight=15 if q else 150))
    if default_ops:
        for spec in ("P128", "P80"):
            for be in (["spqlios-fma"] if q else BACKENDS):
                bs.append(B("%s-%s-%s-optim" % (name, spec, be), "low", be, "optim", (8 if q else 120) / SPEED[be], spec=spec, nkeys=1, ops=default_ops, nops=4,
                            weight=60 if q else 400, det_count=1, max_procs=4 if q else 8))
                if with_gates:
                    bs.append(B("gates-%s-%s-optim" % (spec, be), "gates", be, "optim", (10 if q else 200) / SPEED[be], spec=spec, nkeys=1, mode="table", stats=0,
                                weight=60 if q else 400, det_count=1, max_procs=4 if q else 8))
    return bs


def c04_batches(tier):
    return low_batches(tier, "boot,bre,extract", "sweep", 70, 2500, True, "boot,bre")


def c04_extra(tier, batches, results, cov):
    need = ["phat_0", "phat_N-1", "phat_N", "phat_2N-1"]
    return {"boundary_probes": {k: cov["probes"].get(k, 0) for k in need + ["p_0", "p_N-1", "p_N", "p_2N-1", "modswitch_tie"]},
            "boundary_probes_all_hit": all(cov["probes"].get(k, 0) > 0 for k in need)}


def c08_batches(tier):
    return low_batches(tier, "ks", "ks", 120, 5000, True, None) + [
        B("gates-%s-spqlios-fma-optim" % spec, "gates", "spqlios-fma", "optim", 10 if tier == "quick" else 300, spec=spec, nkeys=1, mode="table", stats=0,
          weight=60, det_count=1, max_procs=4) for spec in ("P128", "P80")]


def c09_batches(tier):
    return low_batches(tier, "extprod,muxrot,blindrot", "ext", 60, 2500, False, None)


def c09_extra(tier, batches, results, cov):
    mx = 0.0
    for b in cov["per_batch"]:
        mx = max(mx, b["stats"].get("extprod_ratio.max", 0.0))
    return {"largest_fft_discrepancy_over_tolerance": mx, "probes_cmux_blindrot": {k: v for k, v in cov["probes"].items() if k.startswith(("cmux", "blindrot", "extprod"))}}


def c15_batches(tier):
    q = tier == "quick"
    bs = low_batches(tier, "extprod,muxrot,blindrot,ks,boot,bre,extract", "calls", 50, 2000, True, "boot,bre", limit_nayuki_debug=True)
    for be in BACKENDS:
        bs.append(B("netlist-swarm-%s-optim" % be, "gates", be, "optim", 40 if q else 1000, spec="swarm:24", specpool=6, nkeys=2, mode="netlist", gates=16, pfault=0.2,
                    stats=0, weight=15 if q else 150))
    return bs


# ----------------------------------------------------------------------------- C16
def c16_batches(tier):
    q = tier == "quick"
    bs = []
    for be in BACKENDS:
        for var in ("optim-asan", "debug-asan"):
            slow = 1.0 if var.startswith("optim") else 0.5
            extra = {"Bmax": 10} if (var.startswith("debug") and be.startswith("nayuki")) else {}
            # life cycles over the whole configuration matrix (small dimensions: many short runs)
            bs.append(B("life-small-%s-%s" % (be, var), "life", be, var, (60 if q else 1500) * slow, maxn=9, nops=12, weight=30 if q else 300, max_procs=3, **extra))
            # every run in its own short-lived thread, the main thread never touches the library (thread create/exit histories)
            bs.append(B("life-threads-%s-%s" % (be, var), "life", be, var, (24 if q else 600) * slow, maxn=9, nops=8, threadrun=1, weight=20 if q else 200, max_procs=2, **extra))
            if var == "optim-asan" or not q:
                bs.append(B("life-threads-large-%s-%s" % (be, var), "life", be, var, 2 if q else 10, n=630, nops=4, threadrun=1, membudget=140e6, weight=40 if q else 200,
                            max_procs=2, det_count=1, **extra))
            # large dimensions incl. n > N (memory heavy: few runs)
            bs.append(B("life-large-%s-%s" % (be, var), "life", be, var, (4 if q else 60) * slow, nops=6, membudget=120e6, weight=60 if q else 300, max_procs=2, det_count=1, **extra))
            if var == "optim-asan" or not q:
                for nn in (1025, 1100, 630):
                    bs.append(B("life-n%d-%s-%s" % (nn, be, var), "life", be, var, 2 if q else 12, n=nn, nops=5, membudget=140e6, weight=40 if q else 200, max_procs=2,
                                det_count=1, **extra))
            # the other scenarios under the sanitizers: gates, transport, faults, low-level clients, concurrency
            bs.append(B("gates-%s-%s" % (be, var), "gates", be, var, (30 if q else 600) * slow, spec="swarm:12", specpool=4, nkeys=1, stats=0, weight=20 if q else 200, max_procs=2))
            bs.append(B("io-%s-%s" % (be, var), "io", be, var, (40 if q else 800) * slow, spec="swarm:6", specpool=2, nkeys=1, weight=15 if q else 150, max_procs=2))
            bs.append(B("iofault-%s-%s" % (be, var), "iofault", be, var, (20 if q else 400) * slow, spec="swarm:4", specpool=2, fmode="mix", attempts=30, fork=1, weight=15 if q else 150,
                        max_procs=2))
            bs.append(B("low-%s-%s" % (be, var), "low", be, var, (16 if q else 400) * slow, spec="swarm:8", specpool=2, nkeys=1, nops=5, weight=20 if q else 200, max_procs=2,
                        **({"xBmax": 10} if extra else {})))
            bs.append(B("conc-%s-%s" % (be, var), "conc", be, var, (16 if q else 400) * slow, spec="swarm:8", specpool=2, nkeys=1, maxw=6, weight=20 if q else 200, max_procs=2))
    # valgrind memcheck on the -march=haswell twin of the optim build: sees inside the hand-written assembly (thorough tier)
    for be in BACKENDS:
        scs = [("life", dict(maxn=9, nops=6))]
        if not q:
            scs += [("gates", dict(spec="swarm:9", specpool=2, nkeys=1, stats=0)), ("low", dict(spec="swarm:6", specpool=1, nkeys=1, nops=3, xBmax=10))]
        for sc, opts in scs:
            if True:
                bs.append(B("valgrind-%s-%s" % (sc, be), sc, be, "hsw", 2 if q else 8, weight=40 if q else 150, max_procs=2 if q else 8, no_determinism=True, timeout=3000,
                            wrapper=["valgrind", "-q", "--error-exitcode=88", "--leak-check=no", "--num-callers=12"], **opts))
    # plain builds: dirty-memory differential (two fill patterns) of the life cycles incl. the hand-written assembly paths
    for be in BACKENDS:
        bs.append(B("life-dirty-%s-optim" % be, "life", be, "optim", 40 if q else 1500, maxn=9, nops=12, weight=20 if q else 200, det_count=40 if q else 400))
    return bs


# ----------------------------------------------------------------------------- C17
def c17_batches(tier):
    q = tier == "quick"
    bs = []
    for be in BACKENDS:
        for var in ("optim", "debug"):
            bs.append(B("cloudkey-swarm-%s-%s" % (be, var), "cloudkey", be, var, (50 if q else 600) * (1 if var == "optim" else 0.5), spec="swarm:32",
                        specpool=25 if q else 300, nkeys=3, weight=20 if q else 200))
    for spec in ("P128", "P80"):
        for be in (["spqlios-fma", "fftw"] if q else BACKENDS):
            bs.append(B("cloudkey-%s-%s-optim" % (spec, be), "cloudkey", be, "optim", 2 if q else 12, spec=spec, nkeys=1 if q else 6, weight=60 if q else 300,
                        det_count=1, max_procs=2 if q else 6))
    return bs


# ----------------------------------------------------------------------------- C18
SWEEP_KINDS = {  # kind -> number of 2048-byte chunks needed to cover its export (upper bound, verified by the judge)
    "LweParams": 1, "LweSample": 1, "LweKey": 1, "TLweParams": 1, "TLweSample": 1, "TLweKey": 1, "TGswParams": 1, "TGswSample": 1, "TGswKey": 1,
    "LweKeySwitchKey": 3, "GateBootstrappingParameterSet": 1, "GateCiphertext": 1,
    "LweBootstrappingKey": 30, "CloudKeySet": 30, "SecretKeySet": 33,
}


def c18_batches(tier):
    q = tier == "quick"
    bs = []
    # exhaustive crash-point sweep: every byte offset of the export of a small-parameter object of every type, both transports
    for kind, chunks in SWEEP_KINDS.items():
        big = chunks > 3
        be = "spqlios-fma"
        bs.append(B("sweep-%s" % kind, "iofault", be, "optim", chunks, spec=TINY, kind=kind, fmode="sweep", chunk=2048, ctxseed=11, oseed=5,
                    n=5, N=8, k=1, l=2, Bgbit=4, fork=1, weight=60 if big else 4, det_count=1))
    if not q:
        for be in BACKENDS[1:]:
            for kind in ("CloudKeySet", "SecretKeySet", "LweKeySwitchKey", "LweKey", "TGswSample"):
                bs.append(B("sweep-%s-%s" % (kind, be), "iofault", be, "optim", SWEEP_KINDS[kind], spec=TINY, kind=kind, fmode="sweep", chunk=2048,
                            ctxseed=12, oseed=6, n=7, N=4, k=2, l=3, Bgbit=2, fork=1, weight=60, det_count=1))
    # seeded mix of truncations at boundaries, corrupted titles / tags, substitutions, on every build
    for be in BACKENDS:
        for var in ("optim", "debug"):
            bs.append(B("mix-%s-%s" % (be, var), "iofault", be, var, (40 if q else 800) * (1 if var == "optim" else 0.5), spec="swarm:4", specpool=3,
                        fmode="mix", attempts=40, fork=1, weight=15 if q else 150))
    # the same faults against sanitizer builds: an out-of-bounds access while parsing kills the worker with a report
    for be in (["spqlios-fma", "fftw"] if q else BACKENDS):
        for var in (["optim-asan"] if q else ["optim-asan", "debug-asan"]):
            bs.append(B("mix-%s-%s" % (be, var), "iofault", be, var, 20 if q else 400, spec="swarm:4", specpool=2, fmode="mix", attempts=40, fork=1, weight=25 if q else 150, max_procs=3))
    for spec in ("P128", "P80"):
        bs.append(B("mix-%s" % spec, "iofault", "spqlios-fma", "optim", 2 if q else 16, spec=spec, fmode="mix", attempts=5, fork=1,
                    kind="CloudKeySet" if spec == "P128" else "SecretKeySet", weight=60 if q else 300, det_count=1, max_procs=2 if q else 4))
    return bs


def c18_judge(tier, batches, results, cov, judged):
    """exhaustiveness of the sweeps: the chunks of every kind must cover its whole export"""
    out = []
    ex = True
    for b, (recs, deaths, wall) in zip(batches, results):
        if b["opts"].get("fmode") != "sweep":
            continue
        size = max([r.get("stats", {}).get("sweep.bytes", 0) for r in recs] + [0])
        covered = b["count"] * int(b["opts"]["chunk"])
        judged["sweep:" + b["name"]] = {"export_bytes": int(size), "offsets_covered": int(min(covered, size)), "complete": covered >= size and len(recs) == b["count"]}
        if covered < size or len(recs) != b["count"]:
            ex = False
    cov["exhaustive_sweeps"] = ex
    return out


def c18_extra(tier, batches, results, cov):
    return {"exhaustive": False, "exhaustive_note": "the truncation sweeps over the small-parameter objects are exhaustive over byte offsets (see judged_statistics); "
            "the mix batches and the default-set objects are sampled", "sweeps_complete": bool(cov.get("exhaustive_sweeps"))}


# ----------------------------------------------------------------------------- determinism proof (not a property)
def det_batches(tier):
    q = tier == "quick"
    n = 40 if q else 500
    bs = []
    for be, var in (("spqlios-fma", "optim"), ("fftw", "debug"), ("nayuki-portable", "optim")):
        bs += [B("det-gates-%s-%s" % (be, var), "gates", be, var, n, spec="swarm:16", specpool=4, nkeys=2, pfault=0.6),
               B("det-conc-%s-%s" % (be, var), "conc", be, var, n, spec="swarm:12", specpool=3, nkeys=1, maxw=8),
               B("det-io-%s-%s" % (be, var), "io", be, var, n, spec="swarm:6", specpool=2, nkeys=1),
               B("det-iofault-%s-%s" % (be, var), "iofault", be, var, n, spec="swarm:4", specpool=2, fmode="mix", attempts=20),
               B("det-cloudkey-%s-%s" % (be, var), "cloudkey", be, var, n // 2, spec="swarm:12", specpool=6, nkeys=2),
               B("det-low-%s-%s" % (be, var), "low", be, var, n, spec="swarm:8", specpool=2, nkeys=1, **({"xBmax": 10} if (var == "debug" or be.startswith("nayuki")) else {})),
               B("det-rand-%s-%s" % (be, var), "rand", be, var, n, spec="swarm:12"),
               B("det-enc-%s-%s" % (be, var), "enc", be, var, n, spec="swarm:12", specpool=3, nkeys=1),
               B("det-life-%s-%s" % (be, var), "life", be, var, n, maxn=9, nops=10, **({"Bmax": 10} if (var == "debug" or be.startswith("nayuki")) else {})),
               B("det-conc-cold-%s-%s" % (be, var), "conc", be, var, n // 2, spec="swarm:12", specpool=3, nkeys=1, maxw=6, cold=1, fork=1)]
    return bs


# ----------------------------------------------------------------------------- registry
RECIPES = {
    "C05": {
        "level": "exploration",
        "batches": c05_batches,
        "oracles": ["C05.", "C06.dup"],
        "rule": "io: one run = a seeded sequence of 1-12 objects (15 exportable kinds; random / extreme / zero contents; noise parameters from a list "
                "spanning 1e-12..0.5 incl. 2^-15, 2^-25, 7.18e-9) written into ONE stream on one transport with seeded write chunking, re-written on "
                "the other transport, read back in order through a seeded short-read reader, re-exported; gates/netlist: circuit evaluated twice, "
                "second pass with ciphertext wire trips, duplicated requests and cloud restarts (cloud key re-imported from the store) and compared "
                "bit for bit. non-trivial = every run (each exercises at least chunked writes); distinct = hash of (context, kinds, contents, wire seeds)",
        "technique": "deterministic simulation of the store/wire (fopencookie FILE* and custom streambuf, seeded chunking and short reads) "
                     "with crash/restart of the cloud actor; history checks over recorded bytes and objects",
        "level_text": "Seeded exploration: byte equality across chunkings of one transport, deep field equality (doubles bit for bit), re-export idempotence, "
                      "exact consumption of concatenated streams, and bit-identical gate outputs and decryptions after the cloud key has been "
                      "re-imported mid-circuit. Sampling over objects, contents and chunkings; not a proof.",
        "level_note": "Default-set keys (113 MB) appear a few times per run of the check, small swarm keys thousands of times. Comparators are the "
                      "harness's own field-by-field code; per-row variance of key material is expected back as the common maximum, as the property states.",
        "assumptions": ["harness comparators enumerate every field of every public structure of the pinned headers"],
    },
    "C06": {
        "level": "exploration",
        "batches": c06_batches,
        "oracles": ["C06."],
        "extra_oracles": ["history"],
        "rule": "one run = W in 1..64 simulated tasks (real pthreads, exactly one runnable at a time) evaluating seeded lists of gates / bootstrappings on "
                "shared inputs with one shared cloud key into private outputs, under a seeded schedule (random walk with p in {1%,10%,30%,100%} or "
                "PCT priorities, random subset of 14 yield-site classes: FFT transform windows, decomposition, external product, CMux, modulus "
                "switch, key switch, gate linear combination, planner, mutex, twiddle-table computation i.e. the library's sin/cos calls), optional histories on the same thread before the measured op (FFT "
                "products of extreme polynomials, gate under another key, key generation, key import), thread churn (every op in a short-lived "
                "child thread) and a loader thread that imports the key and exits. non-trivial = at least one preemption; distinct = hash of "
                "(spec, W, op lists, context-switch sequence)",
        "technique": "deterministic simulation: real threads parked and released one at a time by a seeded scheduler at ELF-interposed library calls; "
                     "byte-for-byte refinement against a sequential reference; planner lock-discipline invariant; replayable explicit schedules",
        "level_text": "Seeded search over schedules, thread counts, operation mixes and histories on all ten builds; every output ciphertext must be "
                      "bit-identical to the sequential reference, shared key/inputs/generator must be untouched, and every FFTW planner call must be "
                      "made under a mutex common to all planner callers. Preemption granularity is the interposed call (incl. the library's sin/cos calls "
                      "while tables are computed). Cold-process runs make the tasks' first transforms the first ones of the process; sampled runs "
                      "that differ between worker processes are re-executed alone and after their process history (C06.process-history).",
        "level_note": "A race confined to straight-line code between two interposed calls cannot be scheduled (DESIGN.md section 9). Data-race freedom "
                      "is decided through its observable consequence (divergence from the sequential reference under some schedule) and the lock "
                      "discipline, not by a happens-before detector; the free-running TSan stress batch is auxiliary.",
        "assumptions": ["thread_local state is per pthread (tasks are real threads, not fibres)", "floating-point FFT code is deterministic for equal inputs on one machine"],
    },
    "C02": {
        "level": "exploration",
        "batches": c02_batches,
        "judge": c02_judge,
        "oracles": ["C02.", "C01."],
        "rule": "one run = a seeded netlist (random DAG, chain, tree, heavy fan-out, in-place accumulation; 3..40 gates on swarm sets, chains of "
                "depth 200 (quick) / 5000 (thorough), 20..150 gates on the default sets) over seeded inputs, evaluated gate by gate; every wire "
                "is decrypted and compared with the plaintext interpreter (first divergent gate reported); admissible phase faults, wire "
                "trips, duplicates and cloud restarts ride along. Default-set batches accumulate the phase error of every bootstrapped output "
                "per (gate class, input class). non-trivial = at least one fault fired; distinct = hash of (spec, faults, op list)",
        "technique": "deterministic simulation: refinement of seeded netlist evaluations against a plaintext interpreter, with batch-level noise "
                     "statistics computed by the omniscient observer (sums merged over runs; judged only on >= 2500 outputs)",
        "level_text": "Seeded exploration over netlists, inputs and keys on all ten builds (refinement), plus statistical invariants on the "
                      "default sets: stdev <= bound, |mean| <= bound/4, |error| < 3/64, equal variance across input classes (fresh, "
                      "bootstrapped, depth >= 50, maximal admissible noise) and zero slope of e^2 against depth.",
        "level_note": "Statistics have a stated detection threshold: a violation is raised only when an estimate exceeds its bound by more than 4 "
                      "estimator sigma (8 for class comparisons); on the tree the stdev sits 12-16 % under the bounds, so a noise increase below "
                      "about 20 % is not detected. Quick judges spqlios-fma/optim only; thorough judges all 20 configurations.",
        "assumptions": ["bounds 0.0037 / 0.0047 (x1.35 for MUX) are the property's own numbers"],
    },
    "C03": {
        "level": "exploration",
        "batches": c03_batches,
        "oracles": ["C03."],
        "rule": "one run = 8 seeded client round trips among {gate bits, LWE, TLWE constant, TLWE polynomial, TGSW, noiseless trivial samples under "
                "two unrelated keys}; Msize from {2..64 (all messages), powers of two up to 2^14, arbitrary up to 32767, a list incl. 3,5,6,7,10,12,"
                "100,1000}; noise at the admissible maximum Msize*alpha = 1/20, half of it, or tiny (TGSW: alpha <= 1/(20 Bg), the digit of "
                "1/Msize multiplies the row noise); n in 1..40 or 630, k in {1,2}, N = 1024; optional wire trip. non-trivial = every run",
        "technique": "deterministic simulation: seeded client round trips (encrypt -> optional wire -> decrypt) with noise drawn from the library "
                     "generator at the admissible maximum; exact-equality oracle",
        "level_text": "Seeded exploration (narrow): returned message == encrypted message exactly, for seeded keys, noise draws and message spaces; "
                      "all messages for Msize <= 64.",
        "level_note": "N = 1024 is the only ring degree the back-ends support; larger Msize is sampled; at Msize*alpha = 1/20 a decryption failure "
                      "is a 10 sigma event, so a failure is a bug and not bad luck.",
        "assumptions": ["10 sigma margin: false-alarm probability < 1e-22 per decryption"],
    },
    "C07": {
        "level": "exploration",
        "batches": c07_batches,
        "judge": c07_judge,
        "oracles": ["C07."],
        "rule": "one run = 5 seeded operations among: reseed experiment (same seed => identical exported secret key set and ciphertexts, on the same "
                "or another thread, after a history of 0..7 extra encryptions i.e. odd and even numbers of Gaussian draws; another seed => "
                "different), fresh LWE/TLWE/TGSW/gate encryptions over an alpha sweep 2^-30..2^-5, sequences that mix up to three noise levels (alternating, random, odd-length blocks, interspersed direct draws; every sample judged against the level it was requested with, a single draw beyond 12 sigma is a violation), statistics of EVERY row of a freshly generated "
                "key-switching and bootstrapping key (a new key per run), key-bit balance; the entropy/time watchdog brackets every call. "
                "Sums are merged over runs and judged on >= 5000 values. non-trivial = every run",
        "technique": "deterministic simulation of the randomness seam (the library's single seedable generator): reseed-and-replay experiments with "
                     "an entropy/time watchdog, plus observer-side noise statistics computed with the secret keys",
        "level_text": "Seeded exploration: byte-identical replay under re-seeding (the same experiment that proves the simulator's own replayability), "
                      "and 8-sigma acceptance regions for mean, variance (between the truncate-toward-zero and round-to-nearest discretisations, "
                      "lower bound included: noise that is too small is a security failure), kurtosis, mask byte histogram and lag correlation, "
                      "recentring of key-switching noise, trivial h=0 rows, binary balanced keys.",
        "level_note": "Statistical oracles cannot see deviations below their stated widths (about 3 % in variance for 10^5 values). TLWE-type "
                      "noise includes the rounding of the FFT product used by the encryption (measured 0.6 unit^2), allowed for up to 1.5 unit^2.",
        "assumptions": ["8 estimator sigma acceptance: false-alarm probability < 1e-14 per statistic"],
    },
    "C04": {
        "level": "exploration",
        "batches": c04_batches,
        "oracles": ["C04."],
        "coverage_extra": c04_extra,
        "rule": "low: one run = 6 seeded calls among {tfhe_bootstrap_FFT, tfhe_bootstrap_woKS_FFT, tfhe_bootstrap, tfhe_bootstrap_woKS} on trivial "
                "samples sweeping rounded phases and both rounding edges, random masks with phases within 2^-10 of the sign boundaries, random "
                "samples, random mu; {tfhe_blindRotateAndExtract(_FFT)} with a random test polynomial and exponent vectors containing 0 and "
                "2N-1 (barb biased to 0, N-1, N, 2N-1); extraction at every index; gates: the same prediction at every bootstrap inside a "
                "gate. non-trivial = every run; distinct = hash of the plan",
        "technique": "deterministic simulation: seeded client workloads on the real bootstrap code, an omniscient observer predicting the rounded "
                     "phase with independent 128-bit rounding at ELF-interposed seams and at direct calls",
        "level_text": "Seeded exploration (narrow): the rounded phase p^ is predicted independently from the secret key and the result must "
                      "be +mu for p^ in [0,N), -mu otherwise (ties in the rounding accepted either way), coefficient p of the anticyclic "
                      "extension for arbitrary test polynomials, within the noise bound; all four variants; boundary probes counted.",
        "level_note": "Decided on flowing and boundary-biased values only; the exhaustive part of the quantifier (all x) is outside this family. "
                      "N is 1024 in every back-end. Noise bound: 3/64 on the default sets, 18 x the worst-case estimate on swarm sets.",
        "assumptions": ["observer rounding (exact integer arithmetic) is the specification of the modulus switch"],
    },
    "C08": {
        "level": "exploration",
        "batches": c08_batches,
        "oracles": ["C08."],
        "rule": "low/ks: one run = 6 key-switching clients, each with a fresh pair of keys, dimensions in {1,2,3,7,8,9,15,16,17,33,64}, a digit "
                "layout from a grid of 15 (t*basebit <= 31), noiseless or noisy key, 24 samples whose masks are random / rounding edges and "
                "carry chains / extreme values / top-of-range wrap; gates: every key switch inside every gate. Oracle: exact identity "
                "phase(result) = b - sum s_i*round(a_i) - sum noises of the rows actually used (mod 2^32). non-trivial = every run",
        "technique": "deterministic simulation: seeded key-switch clients and gate circuits, exact integer identity computed by the observer from "
                     "the secret keys and the actual noise of every key-switching row",
        "level_text": "Seeded exploration (narrow) with an exact oracle: any deviation of one unit of 2^-32 in any explored key switch is a "
                      "violation; wrap-around and carry probes are counted.",
        "level_note": "Not the exhaustive 2^32 sweep per digit layout (outside this family). The mean-zero clause of the rounding is implied by "
                      "round-to-nearest being checked exactly per coefficient.",
        "assumptions": ["observer's round-to-nearest (ties up) is the specification of the digit extraction"],
    },
    "C09": {
        "level": "exploration",
        "batches": c09_batches,
        "oracles": ["C09."],
        "coverage_extra": c09_extra,
        "rule": "one run = 6 calls among tGswExternProduct / tGswExternMulToTLwe / tGswFFTExternMulToTLwe (m in {0,1,-1,X^j,X^(N-1),small-norm}, "
                "TLWE input random / extreme / zero), tfhe_MuxRotate(_FFT) (exponent biased to 0 and 2N-1), tfhe_blindRotate(_FFT) (exponent "
                "vectors with 0, 2N-1, N, N-1 entries) with (l,Bgbit) from a grid of 14 incl. l=1 and l*Bgbit=32, k in {1,2}, noiseless and "
                "noisy rows. non-trivial = every run",
        "technique": "deterministic simulation: seeded external-product clients; the observer predicts the output phase from its own gadget digits "
                     "and the actual noise of every TGSW row, compared up to the calibrated FFT rounding tolerance",
        "level_text": "Seeded exploration (narrow): phase(out) is compared with m*phase(truncated input) + sum digits*row-noise on 9 coefficients per "
                      "call; CMux against ACC + BK*((X^a-1)ACC); blind rotation against X^(sum a_i s_i)*phase within the analytic bound; FFT image "
                      "of every TGSW sample within 2 units of the coefficient-domain sample.",
        "level_note": "Both product variants use floating-point FFT products in this library, so equality is up to a tolerance of "
                      "20*sqrt(kpl*(1+kN/2)) units (largest discrepancy seen is recorded); errors of interest are > 2^20 units.",
        "assumptions": ["FFT rounding stays within the calibrated tolerance on the unchanged tree (C10 is not decided here)"],
    },
    "C15": {
        "level": "exploration",
        "batches": c15_batches,
        "oracles": ["C15."],
        "rule": "every library call of the scenarios gates (14 gates, 5 aliasing patterns: result=a, =b, =c, a=b, all equal) and low (external "
                "products, CMux, blind rotation, key switch, 4 bootstrap variants, blind-rotate-and-extract, extraction) is bracketed by "
                "snapshots (64-bit hashes) of every input argument, the cloud key, the parameters and the generator state, plus the "
                "entropy/time watchdog; aliased gate calls must give the bytes of the non-aliased call. non-trivial = every run",
        "technique": "deterministic simulation: history monitors (byte snapshots before/after every API call, generator operator<< state, interposed "
                     "entropy/time functions) over seeded client workloads, aliasing as an injected legal fault",
        "level_text": "Seeded exploration over calls, parameter grids (incl. l=1, k=2, l*Bgbit=32) and aliasing patterns on all ten builds.",
        "level_note": "Snapshots compare state after the call (the decomposition's transient offset on its const input is allowed). Whole cloud keys "
                      "are hashed at every call on swarm sets and at the last call of a run on default sets.",
        "assumptions": ["64-bit hash collisions are negligible"],
    },
    "C16": {
        "level": "exploration",
        "batches": c16_batches,
        "extra_oracles": ["dirty"],
        "rule": "life: one run = one configuration of the matrix n in {1,3,7,8,9,500,630,1024,1025,1100} x k in {1,2} x (l,Bgbit) in a grid of 10 x "
                "(t,basebit) in a grid of 10 (memory-capped) and a sequence of 6-12 operations generated from a typestate model of the API "
                "(encrypt with the three allocation idioms, gates, export/import of cloud key, secret key and ciphertexts on both transports, "
                "gates under imported keys, low-level calls incl. bootstrap without key switch, alloc/init/destroy/free quadruples and "
                "array variants, short-lived threads, second key, deletions in any allowed order) followed by a complete teardown and "
                "collector finalize. Other scenarios (gates, io, iofault, low, conc) ride along under the sanitizers. non-trivial = every run",
        "technique": "deterministic simulation of API life cycles with the allocator as a fault surface: AddressSanitizer/UBSan builds of the library "
                     "(reports classified from worker deaths), LeakSanitizer recoverable checks at the end of each sequence, and a dirty-memory "
                     "differential (each plan executed under two heap fill patterns, event hashes compared)",
        "level_text": "Seeded exploration over the configuration matrix and API orders on all five back-ends, optim and debug, under ASan+UBSan; "
                      "any sanitizer report, any unreachable allocation after teardown or thread exit, and any observable difference between two "
                      "heap fill patterns is a violation.",
        "level_note": "ASan does not see inside the hand-written assembly (.s files, inline asm); those paths are covered only through the "
                      "dirty-memory differential and the n < 8 / n > N configurations on the plain optim build. UBSan runs without the "
                      "signed-overflow and shift checks (Torus32 wraps by design). valgrind cannot run the optim build on this CPU (AVX-512).",
        "assumptions": ["sanitizer runtimes of gcc 12"],
    },
    "C17": {
        "level": "exploration",
        "batches": c17_batches,
        "rule": "one run = one (parameter set, key seed, transport, write chunking): the cloud key export is captured by a write recorder (every "
                "byte of every write call), measured against the size the parameters determine, compared with the secret key set export "
                "(strict prefix) and searched for every encoding of the LWE key and of ring-key windows (int32, bytes, ASCII, packed bits both "
                "orders; only non-degenerate patterns >= 16 bytes); then imported and used. Histories: secret material exported before the cloud key, a second writer open at the same time, or (overlap 4..6) a secret export running in ANOTHER simulated task while this one exports the cloud key, every write call reaching a store being a scheduling point of the seeded scheduler. All runs count as non-trivial; distinct = hash of "
                "(spec, key seed, transport, chunk seed)",
        "technique": "deterministic simulation of the export path with a write recorder on both transports (write calls are scheduling points of the seeded "
                     "scheduler when a second task exports secret material concurrently); history check over the recorded bytes",
        "level_text": "Seeded exploration over keys, parameter sets (both defaults plus small sets), transports and chunkings; exact-size, "
                      "strict-prefix and absence-of-secret oracles over everything written (byte-for-byte comparison of the binary part with an "
                      "observer-side serialisation of the in-memory public rows; no row with a constant mask), plus an import-and-evaluate check; "
                      "histories incl. a secret export running concurrently in another simulated task.",
        "level_note": "The substring search can only find the encodings it enumerates (those the library uses plus packed/ASCII variants); a "
                      "self-test confirms on every run that the int32 encoding IS found in the secret key set export.",
        "assumptions": ["secret material would be leaked in one of the enumerated encodings"],
    },
    "C18": {
        "level": "fault_enumeration",
        "batches": c18_batches,
        "judge": c18_judge,
        "coverage_extra": c18_extra,
        "rule": "sweep: every byte offset of the export of one small-parameter object per type (15 types) is used as a crash point of the writer "
                "(F-trunc) on both transports; mix: seeded truncations biased to section/array boundaries +-8, single-byte corruptions of title "
                "words and type tags {x^1, x^0x80, 0, LF, CR, random}, and (exporter A -> importer B) substitutions whose leading title/tag "
                "differs, with seeded short reads on top. Each attempt is classified in-process {abort, null-deref, exception, failed stream, "
                "returned clean}; returned-clean is accepted only when the object is field-equal to the original. non-trivial = run with >= 1 "
                "fault fired; distinct = hash of (object, fault list)",
        "technique": "fault enumeration inside the deterministic simulator: crash points of the writer (every prefix), corrupted and mistyped "
                     "streams delivered through the simulated transports; in-process outcome classification via interposed abort + SIGSEGV capture",
        "level_text": "Exhaustive over byte offsets for the small-parameter object of each of the 15 exportable types on both transports "
                      "(fault enumeration), sampled for default-set objects, title/tag corruptions and substitutions.",
        "level_note": "Outcome classes are obtained in-process (interposed abort -> siglongjmp, SIGSEGV handler accepting only addresses < 4096 as "
                      "null dereference, catch(...)); a fault at any other address is reported as out-of-bounds. Read errors (EIO) are not injected: "
                      "the property does not quantify over them (see DESIGN.md).",
        "assumptions": ["abort/null-dereference/uncaught exception inside an import terminate a real process"],
    },
    "C01": {
        "level": "exploration",
        "batches": c01_batches,
        "oracles": ["C01.", "C04."],
        "rule": "one run = one seeded gate table: gate g, all 2^arity input tuples, input provenance in {fresh, constant, bootstrapped, "
                "NOT-of-fresh, mixed}, admissible phase fault per input in {none, +1/32, -1/32, towards the decision boundary, uniform}, "
                "optional wire trip and aliasing; non-trivial = at least one fault fired (F-noise/F-chunk/F-short) or an input at the "
                "admissible maximum; distinct = distinct hash of (parameter set, fault multiset, op list)",
        "technique": "deterministic simulation: seeded gate-table runs of a client/cloud pair with injected admissible phase faults, "
                     "wire chunking and aliasing; omniscient-observer oracles at ELF-interposed bootstrap/key-switch seams",
        "level_text": "Seeded exploration of (key, gate, input tuple, provenance, admissible phase fault, transport chunking) on all ten "
                      "library builds; each run checks decryption against the truth table, the observer's own phase sign and, at every "
                      "bootstrap inside a gate, that the result is +mu / -mu according to the independently rounded phase. The gate's internal "
                      "combination is compared with the reference formula as a diagnostic only (a different but correct implementation must not "
                      "alarm). Sampling, not proof.",
        "level_note": "Default sets get hundreds (quick) to thousands (thorough) of gate evaluations per back-end; swarm parameter sets "
                      "(N=1024, small n, Bgbit<=10, accepted only when the worst-case noise estimate leaves 12 sigma) supply the bulk of the "
                      "runs. Trusted: observer arithmetic, glibc/libstdc++, the noise estimate used to accept swarm sets.",
        "assumptions": ["the observer's phase arithmetic (32-bit wrapping dot products written independently of the library) is correct",
                        "ELF interposition of tfhe_bootstrap(_woKS)_FFT / lweKeySwitch reaches the library's internal calls (probe counters "
                        "affine_checked / bootstrap_checked / keyswitch_checked report 0 if it does not)"],
    },
}
