// S1 clients on the lower-level API (external products, CMux, blind rotation, key switch, bootstrap variants,
// extraction) with boundary-biased arguments.  Serves C09 (predicted external-product phase), C08 (exact key-switch
// identity on boundary masks, all digit layouts, noiseless and noisy keys), C04 (phase sweep through all bootstrap
// variants, arbitrary test polynomials), C15 (snapshots of every input argument and of the generator around each call).
#include "scen.h"
#include <cmath>
#include <algorithm>
#include <numeric_functions.h>
#include <polynomials_arithmetic.h>

// not declared in the public headers (C++ linkage inside the library); defined by the simulator's seams
void tfhe_MuxRotate_FFT(TLweSample *result, const TLweSample *accum, const TGswSampleFFT *bki, const int32_t barai, const TGswParams *bk_params);
void tfhe_MuxRotate(TLweSample *result, const TLweSample *accum, const TGswSample *bki, const int32_t barai, const TGswParams *bk_params);

namespace sim {
namespace {

static inline int32_t sdiff(uint32_t a, uint32_t b) { return (int32_t) (a - b); }

// observer's gadget digits of one torus value: balanced digits in [-Bg/2, Bg/2) of the truncation to l*Bgbit bits
static void obs_digits(uint32_t x, int l, int Bgbit, int32_t *dig, uint32_t *recomposed) {
    const int32_t Bg = 1 << Bgbit, half = Bg / 2;
    // x + offset, offset = half * sum_q 2^(32 - q*Bgbit): then digit_q = field_q - half
    uint32_t off = 0;
    for (int q = 1; q <= l; q++) off += (uint32_t) half << (32 - q * Bgbit);
    uint32_t y = x + off;
    uint32_t rec = 0;
    for (int q = 1; q <= l; q++) {
        int32_t f = (int32_t) ((y >> (32 - q * Bgbit)) & (uint32_t) (Bg - 1));
        dig[q - 1] = f - half;
        rec += (uint32_t) dig[q - 1] << (32 - q * Bgbit);
    }
    if (recomposed) *recomposed = rec;
}

struct LowCtx {
    int N = 1024, k = 1, l = 2, Bgbit = 10;
    TLweParams *tp = nullptr; TGswParams *gp = nullptr; TGswKey *gk = nullptr;
    std::vector<int32_t> S;   // ring key k*N
    ~LowCtx() { if (gk) delete_TGswKey(gk); if (gp) delete_TGswParams(gp); if (tp) delete_TLweParams(tp); }
    void init(int k_, int l_, int Bgbit_, double alpha) {
        k = k_; l = l_; Bgbit = Bgbit_;
        tp = new_TLweParams(N, k, alpha, 0.25); gp = new_TGswParams(l, Bgbit, tp); gk = new_TGswKey(gp);
        tGswKeyGen(gk);
        S.resize((size_t) k * N);
        for (int u = 0; u < k; u++) for (int j = 0; j < N; j++) S[(size_t) u * N + j] = gk->key[u].coefs[j];
    }
};

static uint64_t hash_tgsw(const TGswSample *s, const TGswParams *gp) {
    Hash h; for (int p = 0; p < gp->kpl; p++) h.u64(obs::hash_tlwe(&s->all_sample[p], gp->tlwe_params->N, gp->tlwe_params->k)); return h.get();
}
struct LagV { double *c; void *p; };
static uint64_t hash_tgswfft(const TGswSampleFFT *s, const TGswParams *gp) {
    Hash h; int N = gp->tlwe_params->N, k = gp->tlwe_params->k;
    for (int p = 0; p < gp->kpl; p++) { for (int u = 0; u <= k; u++) h.bytes(((const LagV *) &s->all_samples[p].a[u])->c, (size_t) N * 8); h.bytes(&s->all_samples[p].current_variance, 8); }
    return h.get();
}
static uint64_t hash_tgswparams(const TGswParams *g) {
    Hash h; h.u64(g->l); h.u64(g->Bgbit); h.u64(g->Bg); h.u64(g->halfBg); h.u64(g->maskMod); h.u64(g->kpl); h.u64(g->offset); h.bytes(g->h, (size_t) g->l * 4);
    h.u64(g->tlwe_params->N); h.u64(g->tlwe_params->k); return h.get();
}

// noise polynomials of the rows of a TGSW encryption of message polynomial m (k+1)*l rows x N
static void tgsw_row_noise(std::vector<std::vector<uint32_t>> &e, const TGswSample *s, const int32_t *m, LowCtx &cx) {
    const int N = cx.N, k = cx.k, l = cx.l;
    e.assign((size_t) (k + 1) * l, std::vector<uint32_t>());
    std::vector<uint32_t> ph, mS((size_t) N);
    for (int u = 0; u <= k; u++) {
        // message part of the phase of rows of block u: m*h_q*(-S_u) (u<k) or m*h_q (u=k)
        if (u < k) { std::vector<uint32_t> Su((size_t) N); for (int j = 0; j < N; j++) Su[(size_t) j] = (uint32_t) cx.S[(size_t) u * N + j];
            for (int j = 0; j < N; j++) mS[(size_t) j] = (uint32_t) -(int32_t) obs::negacyclic_coef(m, Su.data(), N, j); }
        else for (int j = 0; j < N; j++) mS[(size_t) j] = (uint32_t) m[j];
        for (int q = 0; q < l; q++) {
            obs::tlwe_phase(ph, &s->all_sample[u * l + q], cx.S.data(), N, k);
            uint32_t hq = 1u << (32 - (q + 1) * cx.Bgbit);
            auto &row = e[(size_t) (u * l + q)]; row.resize((size_t) N);
            for (int j = 0; j < N; j++) row[(size_t) j] = ph[(size_t) j] - mS[(size_t) j] * hq;
        }
    }
}

// The library's ACTUAL gadget digits, captured at the interposed decomposition (one call per TLWE component): the prediction must
// not depend on the digit convention (truncating or rounding decompositions are both admissible), only on what C12 states:
// digits in [-Bg/2, Bg/2) and recomposition within one unit 2^(32 - l*Bgbit) of the input.
struct DigitCapture {
    int N, l; std::vector<std::vector<int32_t>> dig; int calls = 0;
    static void cb(void *ctx, int fn, int phase, void **a) {
        if (fn != F_DECOMP || phase != 1) return;
        DigitCapture *d = (DigitCapture *) ctx;
        const IntPolynomial *res = (const IntPolynomial *) a[0];
        for (int q = 0; q < d->l; q++) d->dig.emplace_back(res[q].coefs, res[q].coefs + d->N);
        d->calls++;
    }
};

// predicted phase of  TGSW(m) (*) c  at coefficient j:  sum_p (dec_p * e_p)_j + (m * phase(c_hat))_j
struct ExtPred {
    std::vector<std::vector<int32_t>> dec;   // kpl x N
    std::vector<uint32_t> ph_hat;            // phase of the recomposed (truncated) sample
    void prepare(const TLweSample *c, LowCtx &cx) {
        const int N = cx.N, k = cx.k, l = cx.l;
        dec.assign((size_t) (k + 1) * l, std::vector<int32_t>((size_t) N));
        TLweSample *hat = new_TLweSample(cx.tp);
        int32_t dg[32];
        for (int u = 0; u <= k; u++) for (int j = 0; j < N; j++) {
            uint32_t rec; obs_digits((uint32_t) c->a[u].coefsT[j], l, cx.Bgbit, dg, &rec);
            for (int q = 0; q < l; q++) dec[(size_t) (u * l + q)][(size_t) j] = dg[q];
            hat->a[u].coefsT[j] = (int32_t) rec;
        }
        obs::tlwe_phase(ph_hat, hat, cx.S.data(), N, k);
        delete_TLweSample(hat);
    }
    // replace the observer's digits by the captured ones (if the capture is complete); returns a description of a C12-type defect
    std::string adopt(const DigitCapture &cap, const TLweSample *c, LowCtx &cx) {
        const int N = cx.N, k = cx.k, l = cx.l;
        if (cap.calls != k + 1 || (int) cap.dig.size() != (k + 1) * l) return "";
        const int32_t half = 1 << (cx.Bgbit - 1);
        const uint32_t unit = (l * cx.Bgbit >= 32) ? 1u : (1u << (32 - l * cx.Bgbit));
        TLweSample *hat = new_TLweSample(cx.tp);
        std::string bad;
        for (int u = 0; u <= k; u++) for (int j = 0; j < N; j++) {
            uint32_t rec = 0;
            for (int q = 0; q < l; q++) {
                int32_t d = cap.dig[(size_t) (u * l + q)][(size_t) j];
                if ((d < -half || d >= half) && bad.empty()) bad = fmt("digit %d of component %d coefficient %d is %d, outside [-Bg/2, Bg/2)", q, u, j, d);
                rec += (uint32_t) d << (32 - (q + 1) * cx.Bgbit);
            }
            int32_t dev = (int32_t) (rec - (uint32_t) c->a[u].coefsT[j]);
            if ((dev <= -(int64_t) unit || dev >= (int64_t) unit) && !(l * cx.Bgbit >= 32 && dev == 0) && bad.empty())
                bad = fmt("digits of component %d coefficient %d recompose to a value %d units away from the input (must be < %u)", u, j, dev, unit);
            hat->a[u].coefsT[j] = (int32_t) rec;
        }
        dec = cap.dig;
        obs::tlwe_phase(ph_hat, hat, cx.S.data(), N, k);
        delete_TLweSample(hat);
        return bad;
    }
    uint32_t at(int j, const std::vector<std::vector<uint32_t>> &e, const int32_t *m, int N) const {
        uint32_t acc = obs::negacyclic_coef(m, ph_hat.data(), N, j);
        for (size_t p = 0; p < dec.size(); p++) acc += obs::negacyclic_coef(dec[p].data(), e[p].data(), N, j);
        return acc;
    }
};

static void fill_tlwe(TLweSample *c, Rng &r, int mode, LowCtx &cx) {
    const int N = cx.N, k = cx.k;
    // modes 3/4: per-component magnitude classes - a component is full-range, zero, or SMALL (its d most significant gadget digits
    // are zero while the lower ones are not): inputs on which "skip what decomposes to zero" shortcuts decide (seeded change C09-g)
    int cls[8] = {0}, sh[8] = {0};
    if (mode >= 3) {
        int d0 = 1 + (int) r.below((uint64_t) std::max(1, cx.l));
        for (int u = 0; u <= k && u < 8; u++) {
            cls[u] = mode == 4 ? 2 : (int) r.below(3);
            int d = mode == 4 ? d0 : 1 + (int) r.below((uint64_t) std::max(1, cx.l));
            sh[u] = std::min(31, cx.Bgbit * d + 1);          // |v| < 2^(32 - Bgbit*d - 1): balanced digits 1..d are zero
        }
    }
    for (int u = 0; u <= k; u++) for (int j = 0; j < N; j++) {
        int32_t v;
        if (mode >= 3) {
            int q = std::min(u, 7);
            v = cls[q] == 1 ? 0 : (int32_t) r.next();
            if (cls[q] == 2) v = sh[q] >= 31 ? (int32_t) r.range(-1, 1) : (v >> sh[q]);
            c->a[u].coefsT[j] = v;
            continue;
        }
        switch (mode) {
            case 1: { static const int32_t ex[] = {INT32_MIN, INT32_MAX, 0, -1, 1, INT32_MIN + 1, (int32_t) 0x80000200, 0x7ffffe00, 0x00200000, (int32_t) 0xffe00000};
                      v = ex[r.below(10)]; break; }
            case 2: v = 0; break;
            default: v = (int32_t) r.next();
        }
        c->a[u].coefsT[j] = v;
    }
    c->current_variance = 0;
}
static void fill_msg(std::vector<int32_t> &m, Rng &r, int mtype, int N) {
    m.assign((size_t) N, 0);
    switch (mtype) {
        case 0: break;
        case 1: m[0] = 1; break;
        case 2: m[0] = -1; break;
        case 3: m[r.below((uint64_t) N)] = r.bern(0.5) ? 1 : -1; break;
        case 4: m[(size_t) N - 1] = 1; break;
        default: for (int i = 0; i < 4; i++) m[r.below((uint64_t) N)] += (int32_t) r.range(-2, 2);
    }
}

// ------------------------------------------------------------------ generation
static Plan gen_low(uint64_t seed, const Op &opts) {
    Rng r(seed);
    Plan p; p.scenario = "low"; p.seed = seed; p.cfg.kind = "cfg";
    ParamSpec sp = spec_from_opts(opts, r);
    p.cfg.set("spec", sp.str());
    p.cfg.setu("kseed", mix64(opts.getu("keybase", 7), r.below((uint64_t) opts.geti("nkeys", 2))));
    // independent TGSW parameters for the direct external-product clients (wider grid than the gate sets)
    static const int lB[][2] = {{2, 10}, {3, 7}, {1, 16}, {2, 8}, {4, 8}, {3, 10}, {2, 16}, {1, 8}, {8, 4}, {16, 2}, {4, 5}, {1, 20}, {32, 1}, {6, 5}};
    int i = (int) r.below(14);
    while (opts.has("xBmax") && lB[i][1] > opts.geti("xBmax")) i = (int) r.below(14);
    p.cfg.seti("xk", r.bern(0.3) ? 2 : 1)   /* k in {1,2} as the properties quantify; k = 3 was tried: the nayuki debug build's accuracy assertion (known finding) then also fires at Bgbit = 10 */.seti("xl", lB[i][0]).seti("xB", lB[i][1]);
    static const double xa[] = {0, 0, 1e-9, 2.98023223876953125e-08, 1e-6};
    p.cfg.setd("xalpha", xa[r.below(5)]);
    std::string only = opts.gets("ops", "");
    int nops = (int) opts.geti("nops", 6);
    for (int j = 0; j < nops; j++) {
        Op o; o.kind = "op";
        static const char *kinds[] = {"extprod", "muxrot", "blindrot", "ks", "boot", "bre", "extract"};
        std::string k;
        do k = kinds[r.below(7)]; while (!only.empty() && only.find(k) == std::string::npos);
        o.set("k", k).setu("s", r.next());
        if (k == "extprod") o.seti("var", (int) r.below(3)).seti("m", (int) r.below(6)).seti("cin", (int) r.below(5));
        if (k == "muxrot") o.seti("fft", (int) r.below(2)).seti("bit", (int) r.below(2)).seti("a", r.bern(0.3) ? (r.bern(0.5) ? 0 : 2047) : (int) r.below(2048)).seti("cin", (int) r.below(5));
        if (k == "blindrot") o.seti("fft", (int) r.below(2)).seti("n", 1 + (int) r.below(6)).seti("edge", (int) r.below(3));
        if (k == "ks") {
            static const int tb[][2] = {{8, 2}, {16, 1}, {4, 4}, {5, 3}, {15, 2}, {3, 5}, {2, 8}, {10, 3}, {1, 1}, {7, 4}, {31, 1}, {1, 12}, {3, 10}, {2, 12}, {1, 9}};
            int q = (int) r.below(15);
            static const int dims[] = {1, 2, 3, 7, 8, 9, 15, 16, 17, 33, 64};
            o.seti("t", tb[q][0]).seti("bb", tb[q][1]).seti("nin", dims[r.below(11)]).seti("nout", dims[r.below(11)]).seti("noisy", (int) r.below(2)).seti("mask", (int) r.below(4));
            if (tb[q][1] >= 10) o.seti("nin", dims[r.below(4)]).seti("nout", dims[r.below(6)]);   // base 2^bb rows: keep the key small
            else if (tb[q][0] * (1 << tb[q][1]) <= 64 && r.bern(0.15)) { static const int big[] = {500, 630, 1024, 1100, 2048}; o.seti("nin", big[r.below(5)]).seti("nout", dims[r.below(9)]); }   // extracted-key sized inputs
        }
        if (k == "boot") {
            static const int32_t smu[] = {0, INT32_MIN, 1, -1, 1 << 29, 1 << 30, -(1 << 29), 0x2AAAAAAB, INT32_MAX};
            o.seti("var", (int) r.below(4)).seti("xs", (int) r.below(5)).seti("mu", r.bern(0.3) ? smu[r.below(9)] : (int32_t) r.next());
        }
        if (k == "bre") o.seti("fft", (int) r.below(2)).seti("barb", r.bern(0.4) ? (int) (r.below(4) == 0 ? 0 : r.below(4) == 1 ? 1023 : r.below(2) ? 1024 : 2047) : (int) r.below(2048));
        if (k == "extract") o.seti("idx", r.bern(0.3) ? (r.bern(0.5) ? 0 : 1023) : (int) r.below(1024));
        // history: the same thread bootstraps under two keys of the same ring degree and different mask counts (k = 1 and k = 2),
        // in either order (per-thread scratch sized or shaped by the first key would show)
        if ((k == "boot" || k == "bre") && sp.name == "S" && sp.n <= 16) o.seti("alt", r.bern(0.4) ? 1 : 0);
        p.ops.push_back(o);
    }
    return p;
}

// ------------------------------------------------------------------ execution helpers
struct Snap {   // C15: generator + watchdog around one library call
    uint64_t gen; RunResult &r; int opi; const char *what;
    Snap(RunResult &rr, int o, const char *w) : r(rr), opi(o), what(w) { gen = obs::hash_generator(); watch_begin(); }
    ~Snap() {
        std::string w; uint64_t n = watch_end(&w);
        if (n) r.v.raise("entropy-use", "C15.watchdog", fmt("%s called %s", what, w.c_str()), opi);
        if (obs::hash_generator() != gen) r.v.raise("generator-advanced", "C15.generator", fmt("%s changed the state of the library generator", what), opi);
    }
};
#define CHECK_UNCHANGED(expr_hash, before, name) \
    do { if ((expr_hash) != (before)) r.v.raise("input-modified", "C15.input", fmt("%s: input argument '%s' modified by the call", what, name), opi); } while (0)

// Tolerance for the floating-point FFT products inside one external product.  Each of the kpl*(k+1) products carries a rounding
// error of about one unit of 2^-32 per coefficient (C10: <= 2 units for digits up to 2^9, growing linearly beyond); in the PHASE
// the errors of the mask components are multiplied by the binary ring key (about kN/2 non-zero coefficients, random signs), so
// the phase error has standard deviation ~ sqrt(kpl * (1 + kN/2)) units.  20 x that (largest seen: 8.1 x), calibrated on the unchanged tree
// (largest observed ratio error/tolerance is recorded in the evidence as extprod.maxdiff).
static double fft_tol_units(int kpl, int Bgbit, int k = 1, int N = 1024) {
    return 20.0 * std::sqrt((double) kpl * (1.0 + k * N / 2.0)) * std::max(1.0, std::ldexp(1.0, Bgbit - 9)) + 4.0;
}

static void op_extprod(const Op &o, LowCtx &cx, RunResult &r, int opi) {
    Rng rr(o.getu("s"));
    const int N = cx.N;
    const char *what = "external product";
    std::vector<int32_t> m; fill_msg(m, rr, (int) o.geti("m"), N);
    IntPolynomial *mp = new_IntPolynomial(N); for (int j = 0; j < N; j++) mp->coefs[j] = m[(size_t) j];
    TGswSample *g = new_TGswSample(cx.gp);
    double alpha = cx.tp->alpha_min;
    tGswSymEncrypt(g, mp, alpha, cx.gk);
    TLweSample *c = new_TLweSample(cx.tp), *out = new_TLweSample(cx.tp);
    fill_tlwe(c, rr, (int) o.geti("cin"), cx);
    std::vector<std::vector<uint32_t>> e; tgsw_row_noise(e, g, m.data(), cx);
    ExtPred pred; pred.prepare(c, cx);
    DigitCapture cap; cap.N = N; cap.l = cx.l;
    ObserverScope capscope(DigitCapture::cb, &cap);
    int var = (int) o.geti("var");
    uint64_t hg = hash_tgsw(g, cx.gp), hc = obs::hash_tlwe(c, N, cx.k), hp = hash_tgswparams(cx.gp);
    if (var == 0) {
        what = "tGswExternProduct";
        { Snap s(r, opi, what); tGswExternProduct(out, g, c, cx.gp); }
        CHECK_UNCHANGED(obs::hash_tlwe(c, N, cx.k), hc, "b (TLWE input)");
    } else if (var == 1) {
        what = "tGswExternMulToTLwe";
        tLweCopy(out, c, cx.tp);
        { Snap s(r, opi, what); tGswExternMulToTLwe(out, g, cx.gp); }
    } else {
        what = "tGswFFTExternMulToTLwe";
        TGswSampleFFT *gf = new_TGswSampleFFT(cx.gp);
        tGswToFFTConvert(gf, g, cx.gp);
        // FFT image faithful: FromFFT(ToFFT(g)) within 1 unit of g
        TGswSample *back = new_TGswSample(cx.gp);
        tGswFromFFTConvert(back, gf, cx.gp);
        int32_t worst = 0;
        for (int p = 0; p < cx.gp->kpl; p++) for (int u = 0; u <= cx.k; u++) for (int j = 0; j < N; j += 17)
            worst = std::max(worst, std::abs(sdiff((uint32_t) back->all_sample[p].a[u].coefsT[j], (uint32_t) g->all_sample[p].a[u].coefsT[j])));
        r.stats["fftimage.max"] = std::max(r.stats["fftimage.max"], (double) worst);
        if (worst > 2) r.v.raise("fft-image", "C09.fft-image", fmt("FromFFT(ToFFT(TGSW row)) differs from the row by %d units", worst), opi);
        delete_TGswSample(back);
        uint64_t hgf = hash_tgswfft(gf, cx.gp);
        tLweCopy(out, c, cx.tp);
        { Snap s(r, opi, what); tGswFFTExternMulToTLwe(out, gf, cx.gp); }
        CHECK_UNCHANGED(hash_tgswfft(gf, cx.gp), hgf, "gsw (FFT sample)");
        delete_TGswSampleFFT(gf);
    }
    CHECK_UNCHANGED(hash_tgsw(g, cx.gp), hg, "TGSW sample");
    CHECK_UNCHANGED(hash_tgswparams(cx.gp), hp, "params");
    // C09: phase(out) = m*phase(c_hat) + sum dec*e  (exact up to the FFT rounding of the products), with the library's own digits
    {
        std::string bad = pred.adopt(cap, c, cx);
        if (cap.calls == cx.k + 1) r.probes.add("digits_captured_at_seam"); else r.probes.add("digits_not_captured_observer_digits_used");
        if (!bad.empty()) r.v.raise("gadget-digits", "C09.decomposition", fmt("%s (l=%d Bgbit=%d): %s", what, cx.l, cx.Bgbit, bad.c_str()), opi);
    }
    std::vector<uint32_t> pho; obs::tlwe_phase(pho, out, cx.S.data(), N, cx.k);
    double tol = fft_tol_units(cx.gp->kpl, cx.Bgbit, cx.k, cx.N);
    int js[9] = {0, N - 1}; for (int q = 2; q < 9; q++) js[q] = (int) rr.below((uint64_t) N);
    for (int q = 0; q < 9 && !r.v.set; q++) {
        uint32_t want = pred.at(js[q], e, m.data(), N);
        int32_t d = sdiff(pho[(size_t) js[q]], want);
        r.stats["extprod_ratio.max"] = std::max(r.stats["extprod_ratio.max"], std::fabs((double) d) / tol);
        if (std::fabs((double) d) > tol)
            r.v.raise("extprod-phase", "C09.predicted", fmt("%s (l=%d Bgbit=%d k=%d m-type %d): phase coefficient %d is %d, predicted %d from digits and row noises (difference %d units, tolerance %.0f)", what, cx.l, cx.Bgbit, cx.k, (int) o.geti("m"), js[q], (int32_t) pho[(size_t) js[q]], (int32_t) want, d, tol), opi);
    }
    r.probes.add(std::string("extprod_") + what);
    delete_TLweSample(c); delete_TLweSample(out); delete_TGswSample(g); delete_IntPolynomial(mp);
}

static void op_muxrot(const Op &o, LowCtx &cx, RunResult &r, int opi) {
    Rng rr(o.getu("s"));
    const int N = cx.N;
    bool fft = o.geti("fft") != 0;
    const char *what = fft ? "tfhe_MuxRotate_FFT" : "tfhe_MuxRotate";
    int bit = (int) o.geti("bit"), a = (int) o.geti("a");
    TGswSample *g = new_TGswSample(cx.gp);
    tGswSymEncryptInt(g, bit, cx.tp->alpha_min, cx.gk);
    std::vector<int32_t> m((size_t) N, 0); m[0] = bit;
    std::vector<std::vector<uint32_t>> e; tgsw_row_noise(e, g, m.data(), cx);
    TLweSample *acc = new_TLweSample(cx.tp), *res = new_TLweSample(cx.tp), *tmp = new_TLweSample(cx.tp);
    fill_tlwe(acc, rr, (int) o.geti("cin"), cx);
    // observer: tmp = (X^a - 1) * acc computed independently
    for (int u = 0; u <= cx.k; u++) for (int j = 0; j < N; j++) {
        int src = j - a; int64_t sgn = 1;   // coefficient j of X^a * p = +-p[j-a mod 2N]
        src %= 2 * N; if (src < 0) src += 2 * N;
        if (src >= N) { src -= N; sgn = -1; }
        tmp->a[u].coefsT[j] = (int32_t) ((uint32_t) (sgn * (int64_t) acc->a[u].coefsT[src]) - (uint32_t) acc->a[u].coefsT[j]);
    }
    ExtPred pred; pred.prepare(tmp, cx);
    DigitCapture cap; cap.N = N; cap.l = cx.l;
    ObserverScope capscope(DigitCapture::cb, &cap);
    std::vector<uint32_t> phacc; obs::tlwe_phase(phacc, acc, cx.S.data(), N, cx.k);
    uint64_t hacc = obs::hash_tlwe(acc, N, cx.k), hg = hash_tgsw(g, cx.gp);
    if (fft) {
        TGswSampleFFT *gf = new_TGswSampleFFT(cx.gp); tGswToFFTConvert(gf, g, cx.gp);
        uint64_t hgf = hash_tgswfft(gf, cx.gp);
        { Snap s(r, opi, what); tfhe_MuxRotate_FFT(res, acc, gf, a, cx.gp); }
        CHECK_UNCHANGED(hash_tgswfft(gf, cx.gp), hgf, "bki (FFT)");
        delete_TGswSampleFFT(gf);
    } else {
        { Snap s(r, opi, what); tfhe_MuxRotate(res, acc, g, a, cx.gp); }
    }
    CHECK_UNCHANGED(obs::hash_tlwe(acc, N, cx.k), hacc, "accum");
    CHECK_UNCHANGED(hash_tgsw(g, cx.gp), hg, "bki");
    {
        std::string bad = pred.adopt(cap, tmp, cx);   // recomposition is compared with the observer's own (X^a - 1) * ACC
        if (!bad.empty()) r.v.raise("gadget-digits", "C09.decomposition", fmt("%s (l=%d Bgbit=%d, exponent %d): %s", what, cx.l, cx.Bgbit, a, bad.c_str()), opi);
    }
    std::vector<uint32_t> pho; obs::tlwe_phase(pho, res, cx.S.data(), N, cx.k);
    double tol = fft_tol_units(cx.gp->kpl, cx.Bgbit, cx.k, cx.N);
    int js[6] = {0, N - 1}; for (int q = 2; q < 6; q++) js[q] = (int) rr.below((uint64_t) N);
    for (int q = 0; q < 6 && !r.v.set; q++) {
        uint32_t want = phacc[(size_t) js[q]] + pred.at(js[q], e, m.data(), N);
        int32_t d = sdiff(pho[(size_t) js[q]], want);
        if (std::fabs((double) d) > tol)
            r.v.raise("cmux-phase", "C09.cmux", fmt("%s (bit %d, exponent %d): phase coefficient %d differs from ACC + BK*((X^a-1)ACC) prediction by %d units (tolerance %.0f)", what, bit, a, js[q], d, tol), opi);
    }
    if (a == 0) r.probes.add("cmux_exponent_0");
    if (a == 2 * N - 1) r.probes.add("cmux_exponent_2N-1");
    r.probes.add(std::string("cmux_") + (fft ? "fft" : "coef"));
    delete_TLweSample(acc); delete_TLweSample(res); delete_TLweSample(tmp); delete_TGswSample(g);
}

static void op_blindrot(const Op &o, LowCtx &cx, RunResult &r, int opi) {
    Rng rr(o.getu("s"));
    const int N = cx.N;
    bool fft = o.geti("fft") != 0;
    const char *what = fft ? "tfhe_blindRotate_FFT" : "tfhe_blindRotate";
    int n = (int) o.geti("n", 3);
    std::vector<int32_t> bits((size_t) n), bara((size_t) n);
    TGswSample *bk = new_TGswSample_array(n, cx.gp);
    TGswSampleFFT *bkf = fft ? new_TGswSampleFFT_array(n, cx.gp) : nullptr;
    int64_t expo = 0; int nz = 0;
    for (int i = 0; i < n; i++) {
        bits[(size_t) i] = (int32_t) rr.below(2);
        int edge = (int) o.geti("edge");
        bara[(size_t) i] = edge == 1 && rr.bern(0.5) ? (rr.bern(0.5) ? 0 : 2 * N - 1) : edge == 2 && rr.bern(0.3) ? (int) (rr.bern(0.5) ? N : N - 1) : (int32_t) rr.below((uint64_t) 2 * N);
        tGswSymEncryptInt(&bk[i], bits[(size_t) i], cx.tp->alpha_min, cx.gk);
        if (fft) tGswToFFTConvert(&bkf[i], &bk[i], cx.gp);
        expo += (int64_t) bara[(size_t) i] * bits[(size_t) i];
        if (bara[(size_t) i]) nz++;
        if (bara[(size_t) i] == 0) r.probes.add("blindrot_exponent_0");
        if (bara[(size_t) i] == 2 * N - 1) r.probes.add("blindrot_exponent_2N-1");
    }
    TLweSample *acc = new_TLweSample(cx.tp);
    // accumulator: noiseless trivial sample of a random test polynomial (phase known exactly)
    TorusPolynomial *v = new_TorusPolynomial(N);
    for (int j = 0; j < N; j++) v->coefsT[j] = (int32_t) rr.next();
    tLweNoiselessTrivial(acc, v, cx.tp);
    std::vector<uint32_t> ph0; obs::tlwe_phase(ph0, acc, cx.S.data(), N, cx.k);
    uint64_t hb = hash_bytes(bara.data(), bara.size() * 4);
    Hash hk; for (int i = 0; i < n; i++) hk.u64(hash_tgsw(&bk[i], cx.gp));
    uint64_t hkf = 0; if (fft) { Hash h; for (int i = 0; i < n; i++) h.u64(hash_tgswfft(&bkf[i], cx.gp)); hkf = h.get(); }
    { Snap s(r, opi, what); if (fft) tfhe_blindRotate_FFT(acc, bkf, bara.data(), n, cx.gp); else tfhe_blindRotate(acc, bk, bara.data(), n, cx.gp); }
    CHECK_UNCHANGED(hash_bytes(bara.data(), bara.size() * 4), hb, "bara");
    { Hash h2; for (int i = 0; i < n; i++) h2.u64(hash_tgsw(&bk[i], cx.gp)); if (!fft) CHECK_UNCHANGED(h2.get(), hk.get(), "bk"); }
    if (fft) { Hash h; for (int i = 0; i < n; i++) h.u64(hash_tgswfft(&bkf[i], cx.gp)); CHECK_UNCHANGED(h.get(), hkf, "bk (FFT)"); }
    std::vector<uint32_t> ph1; obs::tlwe_phase(ph1, acc, cx.S.data(), N, cx.k);
    // expected: X^expo * ph0 ; error bound: per non-zero step the truncation bias (1+hw) * unit plus 8 sigma of row noise
    int e2 = (int) (expo % (2 * N));
    double unit = std::ldexp(1.0, 32 - cx.l * cx.Bgbit);
    int hw = 0; for (auto s : cx.S) hw += s != 0;
    double Bg = (double) (1 << cx.Bgbit);
    double sd_rows = std::sqrt((double) cx.gp->kpl * N * Bg * Bg / 12.0 * (std::pow(cx.tp->alpha_min * 4294967296.0, 2) + 4.0));
    double tol = nz * ((1.0 + hw) * unit * 2 + 8.0 * sd_rows + fft_tol_units(cx.gp->kpl, cx.Bgbit, cx.k, cx.N)) + 2;
    for (int q = 0; q < 8 && !r.v.set; q++) {
        int j = q == 0 ? 0 : q == 1 ? N - 1 : (int) rr.below((uint64_t) N);
        int src = j - e2; src %= 2 * N; if (src < 0) src += 2 * N;
        uint32_t want = src >= N ? (uint32_t) -(int32_t) ph0[(size_t) (src - N)] : ph0[(size_t) src];
        int32_t d = sdiff(ph1[(size_t) j], want);
        if (std::fabs((double) d) > tol)
            r.v.raise("blindrot-phase", "C09.blindrot", fmt("%s (n=%d, exponent sum %d): phase coefficient %d differs from X^(sum bara_i s_i)*phase by %d units (bound %.3g)", what, n, e2, j, d, tol), opi);
    }
    r.probes.add(std::string("blindrot_") + (fft ? "fft" : "coef"));
    delete_TorusPolynomial(v); delete_TLweSample(acc);
    if (fft) delete_TGswSampleFFT_array(n, bkf);
    delete_TGswSample_array(n, bk);
}

static void op_ks(const Op &o, RunResult &r, int opi) {
    Rng rr(o.getu("s"));
    const char *what = "lweKeySwitch";
    int t = (int) o.geti("t"), bb = (int) o.geti("bb"), nin = (int) o.geti("nin"), nout = (int) o.geti("nout");
    if (t * bb > 31 || t < 1 || bb < 1 || nin < 1 || nout < 1) return;
    int base = 1 << bb;
    double alpha = o.geti("noisy") ? 1e-6 : 0.0;
    LweParams *pin = new_LweParams(nin, alpha, 0.2), *pout = new_LweParams(nout, alpha, 0.2);
    LweKey *kin = new_LweKey(pin), *kout = new_LweKey(pout);
    lweKeyGen(kin); lweKeyGen(kout);
    LweKeySwitchKey *ks = new_LweKeySwitchKey(nin, t, bb, pout);
    lweCreateKeySwitchKey(ks, kin, kout);
    // observer's noise table
    std::vector<int32_t> noise((size_t) nin * t * base);
    for (int i = 0; i < nin; i++) for (int j = 0; j < t; j++) for (int h = 0; h < base; h++) {
        uint32_t ph = obs::lwe_phase(&ks->ks[i][j][h], kout->key, nout);
        uint32_t msg = ((uint32_t) (kin->key[i] * h)) << (32 - (j + 1) * bb);
        noise[((size_t) i * t + j) * base + h] = (int32_t) (ph - msg);
        if (h == 0 && (ph != 0 || ks->ks[i][j][0].b != 0)) r.probes.add("ks_h0_row_not_trivial");   // judged by the C07 scenario
        if (!o.geti("noisy") && h > 0 && noise[((size_t) i * t + j) * base + h] != 0) r.probes.add("ks_noiseless_row_with_rounding_noise");
    }
    LweSample *x = new_LweSample(pin), *y = new_LweSample(pout);
    int reps = 24;
    uint32_t unit = 1u << (32 - t * bb), half = unit >> 1;
    for (int rep = 0; rep < reps && !r.v.set; rep++) {
        for (int i = 0; i < nin; i++) {
            uint32_t a;
            switch ((int) o.geti("mask")) {
                case 0: a = (uint32_t) rr.next(); break;
                case 1: { // rounding edges and carry chains: ...FFFF8000 patterns per digit layout
                    uint32_t hi = (uint32_t) rr.next() & ~(unit - 1);
                    static const int dl[] = {0, -1, 1, 0, 0};
                    int c = (int) rr.below(5);
                    a = hi + half + (uint32_t) dl[c] + (c == 3 ? unit - 1 : 0);
                    if (rr.bern(0.3)) a |= ~(unit - 1);       // all kept digits at maximum: rounding up carries through every digit and wraps
                    break; }
                case 2: { static const uint32_t ex[] = {0, 0x80000000u, 0x7fffffffu, 0xffffffffu, 1}; a = ex[rr.below(5)]; break; }
                default: a = 0xffffffffu - (uint32_t) rr.below((uint64_t) unit);   // top-of-range wrap
            }
            x->a[i] = (int32_t) a;
        }
        x->b = (int32_t) rr.next(); x->current_variance = 0;
        uint64_t hx = obs::hash_lwe(x, nin), hk = obs::hash_ks(ks);
        { Snap s(r, opi, what); lweKeySwitch(y, ks, x); }
        CHECK_UNCHANGED(obs::hash_lwe(x, nin), hx, "sample");
        CHECK_UNCHANGED(obs::hash_ks(ks), hk, "ks");
        // the property fixes round-to-nearest, not what happens on an exact tie (error exactly half a unit either way): the identity
        // is evaluated under the three consistent tie conventions (up = this tree's, down, to even) and must hold under one of them
        uint32_t got = obs::lwe_phase(y, kout->key, nout);
        uint32_t acc_conv[3]; int wraps = 0, ups = 0, ties = 0; int64_t maxdev = 0;
        for (int conv = 0; conv < 3; conv++) {
            uint32_t acc = (uint32_t) x->b;
            for (int i = 0; i < nin; i++) {
                uint32_t ai = (uint32_t) x->a[i], at = obs::ks_round(ai, t, bb), trunc = ai & ~(unit - 1);
                bool tie = (ai & (unit - 1)) == half;
                if (tie && conv == 1) at = trunc;                                            // ties down
                if (tie && conv == 2) at = ((trunc >> (32 - t * bb)) & 1u) ? trunc + unit : trunc;   // ties to even
                if (conv == 0) {
                    if (tie && kin->key[i]) ties++;
                    if (at != trunc) ups++;
                    if (at == 0 && trunc != 0) wraps++;
                    maxdev = std::max<int64_t>(maxdev, std::llabs((int64_t) sdiff(ai, at)));
                }
                acc -= (uint32_t) kin->key[i] * at;
                for (int j = 0; j < t; j++) { uint32_t d = (at >> (32 - (j + 1) * bb)) & (uint32_t) (base - 1); if (d) acc -= (uint32_t) noise[((size_t) i * t + j) * base + d]; }
            }
            acc_conv[conv] = acc;
        }
        if (maxdev > (int64_t) half) r.v.raise("oracle-selftest", "C08.selftest", "observer rounding exceeds half a unit", opi);
        if (wraps) r.probes.add("ks_wraparound", (uint64_t) wraps);
        if (ups) r.probes.add("ks_round_up", (uint64_t) ups);
        if (ties) r.probes.add("ks_exact_ties", (uint64_t) ties);
        uint32_t acc = acc_conv[0];
        if (got != acc_conv[0] && got != acc_conv[1] && got != acc_conv[2])
            r.v.raise("keyswitch-identity", "C08.exact", fmt("lweKeySwitch (t=%d basebit=%d, %d->%d, %s key, mask mode %d): phase(result) %d != b - sum s_i*round(a_i) - used-row noises %d (difference %d)", t, bb, nin, nout, o.geti("noisy") ? "noisy" : "noiseless", (int) o.geti("mask"), (int32_t) got, (int32_t) acc, sdiff(got, acc)), opi);
        if (got != acc_conv[0]) r.probes.add("ks_other_tie_convention");
        r.probes.add("keyswitch_checked");
    }
    r.probes.add(fmt("ks_layout_t%d_b%d", t, bb));
    delete_LweSample(x); delete_LweSample(y); delete_LweKeySwitchKey(ks); delete_LweKey(kin); delete_LweKey(kout); delete_LweParams(pin); delete_LweParams(pout);
}

static void op_boot(const Op &o, KeyCtx *kc, RunResult &r, int opi, double nb_br, double nb_full) {
    Rng rr(o.getu("s"));
    const int N = kc->N, n = kc->n, nin = kc->k * kc->N;
    int var = (int) o.geti("var");   // 0 FFT+KS, 1 FFT woKS, 2 coef+KS, 3 coef woKS
    static const char *names[] = {"tfhe_bootstrap_FFT", "tfhe_bootstrap_woKS_FFT", "tfhe_bootstrap", "tfhe_bootstrap_woKS"};
    const char *what = names[var];
    const int32_t mu_a = (int32_t) o.geti("mu"), mu_b = (int32_t) (rr.next() | 1);
    const LweParams *inp = kc->params->in_out_params;
    LweSample *x = new_LweSample(inp);
    LweSample *res = new_LweSample((var & 1) ? &kc->params->tgsw_params->tlwe_params->extracted_lweparams : inp);
    int reps = (var >= 2) ? 2 : 6;     // coefficient-domain variants are slow
    for (int rep = 0; rep < reps && !r.v.set; rep++) {
        const int32_t mu = (rep & 1) ? mu_b : mu_a;   // output messages alternate A, B, A, B on this thread (history: a stale per-thread test vector shows)
        int xs = (int) o.geti("xs");
        if (xs == 0) {   // trivial sample sweeping a rounded phase and its rounding edges
            int pq = rr.bern(0.5) ? (int) rr.below((uint64_t) 2 * N) : (int) (rr.below(4) == 0 ? 0 : rr.below(3) == 0 ? N - 1 : rr.below(2) ? N : 2 * N - 1);
            uint32_t centre = (uint32_t) (((uint64_t) pq << 32) / (uint64_t) (2 * N));
            uint32_t halfw = (uint32_t) ((1ull << 32) / (uint64_t) (4 * N));
            static const int64_t offs[] = {0, 1, -1, 0, 0};
            int c = (int) rr.below(5);
            uint32_t b = centre + (uint32_t) offs[c] + (c == 3 ? halfw - 1 : c == 4 ? (uint32_t) -(int32_t) halfw + 1 : 0);
            lweNoiselessTrivial(x, (int32_t) b, inp);
        } else if (xs == 1) {   // random mask, phase adjacent to a sign boundary (0 or 1/2)
            for (int i = 0; i < n; i++) x->a[i] = (int32_t) rr.next();
            uint32_t target = (rr.bern(0.5) ? 0u : 0x80000000u) + (uint32_t) rr.range(-(1 << 22), 1 << 22);
            x->b = 0; uint32_t ph = obs::lwe_phase(x, kc->s.data(), n); x->b = (int32_t) (target - ph);
        } else if (xs == 3) {  // coefficients exactly half-way between two multiples of 1/2N (rounding ties of the modulus switch):
                               // the result class is then a matter of convention and is not judged, but the call must still leave its
                               // inputs, the keys and the generator alone and be repeatable
            const uint32_t unit = (uint32_t) ((1ull << 32) / (uint64_t) (2 * N));
            for (int i = 0; i < n; i++) { uint32_t a = (uint32_t) rr.next(); if (i == 0 || rr.bern(0.5)) a = (a & ~(unit - 1)) | (unit >> 1); x->a[i] = (int32_t) a; }
            uint32_t b = (uint32_t) rr.next(); if (rr.bern(0.5)) b = (b & ~(unit - 1)) | (unit >> 1); x->b = (int32_t) b;
        } else {               // random everything
            for (int i = 0; i < n; i++) x->a[i] = (int32_t) rr.next();
            x->b = (int32_t) rr.next();
        }
        x->current_variance = 0;
        bool amb = false;
        int phat = obs::rounded_phase(x, kc->s.data(), n, 2 * N, &amb);
        if (phat == 0) r.probes.add("phat_0");
        if (phat == N - 1) r.probes.add("phat_N-1");
        if (phat == N) r.probes.add("phat_N");
        if (phat == 2 * N - 1) r.probes.add("phat_2N-1");
        if (amb) r.probes.add("modswitch_tie");
        uint64_t hx = obs::hash_lwe(x, n);
        {
            Snap s(r, opi, what);
            switch (var) {
                case 0: tfhe_bootstrap_FFT(res, kc->ck->bkFFT, mu, x); break;
                case 1: tfhe_bootstrap_woKS_FFT(res, kc->ck->bkFFT, mu, x); break;
                case 2: tfhe_bootstrap(res, kc->ck->bk, mu, x); break;
                default: tfhe_bootstrap_woKS(res, kc->ck->bk, mu, x);
            }
        }
        CHECK_UNCHANGED(obs::hash_lwe(x, n), hx, "x");
        uint32_t ph = (var & 1) ? obs::lwe_phase(res, kc->S.data(), nin) : obs::lwe_phase(res, kc->s.data(), n);
        double nb = (var & 1) ? nb_br : nb_full;
        if (!amb) {
            uint32_t want = phat < N ? (uint32_t) mu : (uint32_t) -mu;
            if (std::fabs(t2d(sdiff(ph, want))) > nb)
                r.v.raise("bootstrap-map", "C04.sweep", fmt("%s: x with rounded phase p^=%d (class %d), mu=%d: phase(result)=%d, expected %d within %.4g", what, phat, xs, mu, (int32_t) ph, (int32_t) want, nb), opi);
            r.probes.add(std::string("boot_checked_") + what);
        }
    }
    delete_LweSample(x); delete_LweSample(res);
}

static void op_bre(const Op &o, KeyCtx *kc, RunResult &r, int opi, double nb_br) {
    Rng rr(o.getu("s"));
    const int N = kc->N, n = kc->n, nin = kc->k * kc->N;
    bool fft = o.geti("fft") != 0;
    const char *what = fft ? "tfhe_blindRotateAndExtract_FFT" : "tfhe_blindRotateAndExtract";
    TorusPolynomial *v = new_TorusPolynomial(N);
    for (int j = 0; j < N; j++) v->coefsT[j] = (int32_t) rr.next();
    std::vector<int32_t> bara((size_t) n);
    int64_t p = o.geti("barb");
    int barb = (int) p;
    for (int i = 0; i < n; i++) { bara[(size_t) i] = rr.bern(0.2) ? (rr.bern(0.5) ? 0 : 2 * N - 1) : (int32_t) rr.below((uint64_t) 2 * N); p -= (int64_t) bara[(size_t) i] * kc->s[(size_t) i]; }
    int pp = (int) (((p % (2 * N)) + 2 * N) % (2 * N));
    LweSample *res = new_LweSample(&kc->params->tgsw_params->tlwe_params->extracted_lweparams);
    uint64_t hv = hash_bytes(v->coefsT, (size_t) N * 4), hb = hash_bytes(bara.data(), bara.size() * 4);
    {
        Snap s(r, opi, what);
        if (fft) tfhe_blindRotateAndExtract_FFT(res, v, kc->ck->bkFFT->bkFFT, barb, bara.data(), n, kc->params->tgsw_params);
        else tfhe_blindRotateAndExtract(res, v, kc->ck->bk->bk, barb, bara.data(), n, kc->params->tgsw_params);
    }
    CHECK_UNCHANGED(hash_bytes(v->coefsT, (size_t) N * 4), hv, "v (test polynomial)");
    CHECK_UNCHANGED(hash_bytes(bara.data(), bara.size() * 4), hb, "bara");
    uint32_t want = pp < N ? (uint32_t) v->coefsT[pp] : (uint32_t) -v->coefsT[pp - N];
    uint32_t ph = obs::lwe_phase(res, kc->S.data(), nin);
    if (std::fabs(t2d(sdiff(ph, want))) > nb_br)
        r.v.raise("bootstrap-map", "C04.bre", fmt("%s: barb=%d, p=%d: phase(result)=%d, expected coefficient %d of the anticyclic extension of v = %d within %.4g", what, barb, pp, (int32_t) ph, pp, (int32_t) want, nb_br), opi);
    if (pp == 0) r.probes.add("p_0"); if (pp == N - 1) r.probes.add("p_N-1"); if (pp == N) r.probes.add("p_N"); if (pp == 2 * N - 1) r.probes.add("p_2N-1");
    r.probes.add(std::string("bre_") + (fft ? "fft" : "coef"));
    delete_TorusPolynomial(v); delete_LweSample(res);
}

static void op_extract(const Op &o, LowCtx &cx, RunResult &r, int opi) {
    Rng rr(o.getu("s"));
    const int N = cx.N;
    const char *what = "tLweExtractLweSampleIndex";
    TLweSample *c = new_TLweSample(cx.tp); fill_tlwe(c, rr, (int) rr.below(2), cx);
    LweSample *out = new_LweSample(&cx.tp->extracted_lweparams);
    int idx = (int) o.geti("idx");
    uint64_t hc = obs::hash_tlwe(c, N, cx.k);
    { Snap s(r, opi, what); if (idx == 0) tLweExtractLweSample(out, c, &cx.tp->extracted_lweparams, cx.tp); else tLweExtractLweSampleIndex(out, c, idx, &cx.tp->extracted_lweparams, cx.tp); }
    CHECK_UNCHANGED(obs::hash_tlwe(c, N, cx.k), hc, "x (TLWE sample)");
    std::vector<uint32_t> ph; obs::tlwe_phase(ph, c, cx.S.data(), N, cx.k);
    uint32_t got = obs::lwe_phase(out, cx.S.data(), cx.k * N);
    if (got != ph[(size_t) idx]) r.v.raise("extract", "C04.extract", fmt("extraction of coefficient %d: phase %d != TLWE phase coefficient %d", idx, (int32_t) got, (int32_t) ph[(size_t) idx]), opi);
    r.probes.add("extract_checked");
    delete_TLweSample(c); delete_LweSample(out);
}

static void exec_low(const Plan &p, RunResult &r) {
    ParamSpec sp = ParamSpec::parse(p.cfg.gets("spec"));
    bool need_key = false;
    for (auto &o : p.ops) { std::string k = o.gets("k"); if (k == "boot" || k == "bre") need_key = true; }
    KeyCtx *kc = need_key ? get_key(sp, p.cfg.getu("kseed")) : nullptr;
    KeyCtx *kc_alt = nullptr; ParamSpec sp_alt = sp;
    for (auto &o : p.ops) if (o.geti("alt") && kc && !kc_alt) {
        sp_alt.k = sp.k == 1 ? 2 : 1; sp_alt.l = 3; sp_alt.Bgbit = 7; sp_alt.t = 8; sp_alt.basebit = 2; sp_alt.a_ks = 1e-7; sp_alt.a_bk = 1e-9;
        kc_alt = get_key(sp_alt, p.cfg.getu("kseed") ^ 0xa17);
        r.probes.add("second_key_other_mask_count");
    }
    lib_seed(mix64(p.seed, 0x10e));
    LowCtx cx; cx.init((int) p.cfg.geti("xk", 1), (int) p.cfg.geti("xl", 2), (int) p.cfg.geti("xB", 10), p.cfg.getd("xalpha", 0));
    bool is_default = sp.name != "S";
    double nb_full = is_default ? 3.0 / 64 : 12.0 * sp.sd_gate_out() * 1.5 + 1e-7;
    double nb_br = is_default ? 3.0 / 64 : 12.0 * sp.sd_br() * 1.5 + 1e-7;
    for (size_t oi = 0; oi < p.ops.size() && !r.v.set; oi++) {
        const Op &o = p.ops[oi];
        std::string k = o.gets("k");
        if (k == "extprod") op_extprod(o, cx, r, (int) oi);
        else if (k == "muxrot") op_muxrot(o, cx, r, (int) oi);
        else if (k == "blindrot") op_blindrot(o, cx, r, (int) oi);
        else if (k == "ks") op_ks(o, r, (int) oi);
        else if (k == "boot" && kc) { bool alt = o.geti("alt") && kc_alt; op_boot(o, alt ? kc_alt : kc, r, (int) oi, alt ? 12.0 * sp_alt.sd_br() * 1.5 + 1e-7 : nb_br, alt ? 12.0 * sp_alt.sd_gate_out() * 1.5 + 1e-7 : nb_full); }
        else if (k == "bre" && kc) { bool alt = o.geti("alt") && kc_alt; op_bre(o, alt ? kc_alt : kc, r, (int) oi, alt ? 12.0 * sp_alt.sd_br() * 1.5 + 1e-7 : nb_br); }
        else if (k == "extract") op_extract(o, cx, r, (int) oi);
        r.steps++;
        r.ev.u64(obs::hash_generator());
    }
    Hash ch; ch.str(p.cfg.str()); for (auto &o : p.ops) ch.str(o.str());
    r.case_hash = ch.get(); r.nontrivial = !p.ops.empty();
    r.sample = fmt("spec=%s ext(k=%d,l=%d,Bgbit=%d,alpha=%g) ops=%zu first=%s", sp.str().c_str(), cx.k, cx.l, cx.Bgbit, cx.tp->alpha_min, p.ops.size(), p.ops.empty() ? "" : p.ops[0].str().c_str());
}

const Scenario SC = {"low", gen_low, exec_low};
ScenarioReg reg(&SC);
} // namespace
} // namespace sim
