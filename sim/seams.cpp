#include "seams.h"
#include <execinfo.h>
#include <fcntl.h>
#include <unistd.h>
#include <tfhe.h>
#include <tfhe_io.h>
#include <lagrangehalfc_arithmetic.h>
#include <dlfcn.h>
#include <signal.h>
#include <stdarg.h>
#include <fcntl.h>
#include <sys/time.h>
#include <sys/random.h>
#include <time.h>
#include <unistd.h>
#include <atomic>

namespace sim {
void planner_enter(const char *what);   // sched.cpp

static const char *FN[F_NFN] = {"tfhe_bootstrap_FFT", "tfhe_bootstrap_woKS_FFT", "tfhe_bootstrap", "tfhe_bootstrap_woKS",
                                "lweKeySwitch", "tfhe_blindRotateAndExtract_FFT", "tfhe_blindRotateAndExtract",
                                "tfhe_blindRotate_FFT", "tfhe_blindRotate", "tfhe_MuxRotate_FFT", "tfhe_MuxRotate",
                                "tGswFFTExternMulToTLwe", "tGswExternMulToTLwe", "tGswExternProduct",
                                "tGswTorus32PolynomialDecompH", "tLweExtractLweSample"};
const char *fn_name(int f) { return (f >= 0 && f < F_NFN) ? FN[f] : "?"; }

static std::atomic<uint64_t> g_calls[F_NFN];
static std::atomic<uint64_t> g_site_calls[Y_NSITES];
uint64_t seam_calls(int fn) { return g_calls[fn].load(); }
uint64_t yield_site_calls(int s) { return g_site_calls[s].load(); }
void seam_reset_counts() { for (auto &c : g_calls) c = 0; for (auto &c : g_site_calls) c = 0; }

static thread_local ObsFn tl_obs = nullptr;
static thread_local void *tl_obs_ctx = nullptr;
static thread_local int tl_in_obs = 0;
void set_observer(ObsFn fn, void *ctx) { tl_obs = fn; tl_obs_ctx = ctx; }

static inline void observe(int fn, int phase, void **args) {
    if (phase == 0) g_calls[fn]++;
    if (!tl_obs || tl_in_obs) return;
    tl_in_obs++;
    tl_obs(tl_obs_ctx, fn, phase, args);
    tl_in_obs--;
}
// The linear LWE operations are called in long streaks (n*t row subtractions per key switch, one copy per key row on
// import): yield on the first calls of a streak (the gate-level combination) and then on every 128th only.
static thread_local uint32_t tl_lin_streak = 0, tl_trig_streak = 0;
static inline void yield_at(int site) {
    g_site_calls[site]++;
    if (tl_in_obs) return;
    if (site == Y_LWE_LIN) {
        uint32_t s = ++tl_lin_streak;
        if (s > 4 && (s & 127)) return;
    } else if (site == Y_TABLEINIT) {
        // trigonometric tables are filled by thousands of consecutive calls: the first ones and every 64th are scheduling points
        uint32_t s = ++tl_trig_streak;
        if (s > 2 && (s & 63)) return;
    } else { tl_lin_streak = 0; tl_trig_streak = 0; }
    sim_yield(site);
}

static void *must_sym(const char *name) {
    void *p = dlsym(RTLD_NEXT, name);
    if (!p) { fprintf(stderr, "SIM-ERROR: symbol %s not found behind the simulator (library changed?)\n", name); fflush(stderr); _exit(2); }
    return p;
}

// ------------------------------------------------------------------ watchdog
static thread_local int tl_watch = 0;
static thread_local uint64_t tl_watch_hits = 0;
static thread_local uint64_t tl_clock_hits = 0;
static thread_local char tl_watch_what[96];
static inline void watch_hit(const char *what) {
    if (tl_watch) { tl_watch_hits++; snprintf(tl_watch_what, sizeof tl_watch_what, "%s", what); }
}
// clocks are not entropy: FFTW's planner reads the time of day when a thread plans its first transform.  Counted, not judged;
// a clock used as a seed shows in the re-seeding experiments.
static inline void clock_hit(const char *) { if (tl_watch) tl_clock_hits++; }
uint64_t watch_clock_reads() { return tl_clock_hits; }
void watch_begin() { tl_watch++; if (tl_watch == 1) { tl_watch_hits = 0; tl_watch_what[0] = 0; } }
uint64_t watch_end(std::string *what) {
    if (tl_watch > 0) tl_watch--;
    if (what) *what = tl_watch_what;
    return tl_watch_hits;
}

// ------------------------------------------------------------------ guarded calls
static thread_local sigjmp_buf *tl_jmp = nullptr;
static thread_local uintptr_t tl_fault = 0;
const char *outcome_name(int o) {
    static const char *n[] = {"returned", "abort", "null-deref", "exception", "wild-segv"};
    return n[o];
}
static volatile sig_atomic_t g_fatal_sig = 0;
static void fatal_alarm(int) { int s = g_fatal_sig ? (int) g_fatal_sig : SIGSEGV; signal(s, SIG_DFL); raise(s); _exit(128 + s); }
static void segv_handler(int sig, siginfo_t *si, void *) {
    if (tl_jmp) {
        tl_fault = (uintptr_t) si->si_addr;
        sigjmp_buf *j = tl_jmp;
        siglongjmp(*j, tl_fault < 4096 ? O_NULLDEREF : O_WILDSEGV);
    }
    // (diagnostics below must never keep a dying worker alive: a crash inside malloc holds the arena lock, and anything that
    //  allocates - the first backtrace() loads libgcc_s - would wait for it for ever.  Seen as 30-minute hangs of two checks run
    //  against seeded use-after-free changes.  The unwinder is loaded at start-up and an alarm re-raises the signal after 2 s.)
    g_fatal_sig = sig;
    signal(SIGALRM, fatal_alarm);
    alarm(2);
    // fatal: say where and in which memory situation (an allocation that failed under memory pressure looks like a null or
    // near-null dereference in code that does not check), then die with the default action so that the driver classifies it
    {
        char buf[256]; int n = snprintf(buf, sizeof buf, "\nFATAL-SIGNAL %d fault-address %p\n", sig, si ? si->si_addr : nullptr);
        if (n > 0) { ssize_t w = write(2, buf, (size_t) n); (void) w; }
        void *bt[48]; int nb = backtrace(bt, 48); backtrace_symbols_fd(bt, nb, 2);
        int fd = open("/proc/meminfo", O_RDONLY);
        if (fd >= 0) { char mi[400]; ssize_t k = read(fd, mi, sizeof mi - 1); if (k > 0) { ssize_t w = write(2, mi, (size_t) k); (void) w; } close(fd); }
    }
    signal(sig, SIG_DFL);
    raise(sig);
}
void install_signal_handlers() {
    { void *bt[4]; (void) backtrace(bt, 4); }   // loads the unwinder now, not inside a signal handler
    struct sigaction sa;
    memset(&sa, 0, sizeof sa);
    sa.sa_sigaction = segv_handler;
    sa.sa_flags = SA_SIGINFO | SA_NODEFER;
    sigaction(SIGSEGV, &sa, nullptr);
    sigaction(SIGBUS, &sa, nullptr);
}
Outcome guarded_call(void (*fn)(void *), void *arg, uintptr_t *fault_addr) {
    sigjmp_buf env;
    sigjmp_buf *prev = tl_jmp;
    volatile int rc = sigsetjmp(env, 1);
    if (rc == 0) {
        tl_jmp = &env;
        try { fn(arg); }
        catch (...) { tl_jmp = prev; return O_EXCEPTION; }
        tl_jmp = prev;
        return O_RETURNED;
    }
    tl_jmp = prev;
    if (fault_addr) *fault_addr = tl_fault;
    return (Outcome) rc;
}

} // namespace sim

using namespace sim;

// ====================================================================== interposers
#define REALFN(var, type, name) static type var = (type) must_sym(name)

extern "C" void abort(void) {
    if (tl_jmp) { sigjmp_buf *j = tl_jmp; siglongjmp(*j, O_ABORT); }
    static void (*real)(void) = (void (*)(void)) dlsym(RTLD_NEXT, "abort");
    real();
    __builtin_unreachable();
}

// ---- observed + yielding evaluation functions
extern "C" void tfhe_bootstrap_FFT(LweSample *result, const LweBootstrappingKeyFFT *bk, Torus32 mu, const LweSample *x) {
    REALFN(real, decltype(&tfhe_bootstrap_FFT), "tfhe_bootstrap_FFT");
    void *a[] = {result, (void *) bk, (void *) (intptr_t) mu, (void *) x};
    yield_at(Y_BOOTSTRAP); observe(F_BOOTSTRAP_FFT, 0, a);
    real(result, bk, mu, x);
    observe(F_BOOTSTRAP_FFT, 1, a); yield_at(Y_BOOTSTRAP);
}
extern "C" void tfhe_bootstrap_woKS_FFT(LweSample *result, const LweBootstrappingKeyFFT *bk, Torus32 mu, const LweSample *x) {
    REALFN(real, decltype(&tfhe_bootstrap_woKS_FFT), "tfhe_bootstrap_woKS_FFT");
    void *a[] = {result, (void *) bk, (void *) (intptr_t) mu, (void *) x};
    yield_at(Y_BOOTSTRAP); observe(F_BOOTSTRAP_WOKS_FFT, 0, a);
    real(result, bk, mu, x);
    observe(F_BOOTSTRAP_WOKS_FFT, 1, a); yield_at(Y_BOOTSTRAP);
}
extern "C" void tfhe_bootstrap(LweSample *result, const LweBootstrappingKey *bk, Torus32 mu, const LweSample *x) {
    REALFN(real, decltype(&tfhe_bootstrap), "tfhe_bootstrap");
    void *a[] = {result, (void *) bk, (void *) (intptr_t) mu, (void *) x};
    yield_at(Y_BOOTSTRAP); observe(F_BOOTSTRAP, 0, a);
    real(result, bk, mu, x);
    observe(F_BOOTSTRAP, 1, a); yield_at(Y_BOOTSTRAP);
}
extern "C" void tfhe_bootstrap_woKS(LweSample *result, const LweBootstrappingKey *bk, Torus32 mu, const LweSample *x) {
    REALFN(real, decltype(&tfhe_bootstrap_woKS), "tfhe_bootstrap_woKS");
    void *a[] = {result, (void *) bk, (void *) (intptr_t) mu, (void *) x};
    yield_at(Y_BOOTSTRAP); observe(F_BOOTSTRAP_WOKS, 0, a);
    real(result, bk, mu, x);
    observe(F_BOOTSTRAP_WOKS, 1, a); yield_at(Y_BOOTSTRAP);
}
extern "C" void lweKeySwitch(LweSample *result, const LweKeySwitchKey *ks, const LweSample *sample) {
    REALFN(real, decltype(&lweKeySwitch), "lweKeySwitch");
    void *a[] = {result, (void *) ks, (void *) sample};
    yield_at(Y_KEYSWITCH); observe(F_KEYSWITCH, 0, a);
    real(result, ks, sample);
    observe(F_KEYSWITCH, 1, a); yield_at(Y_KEYSWITCH);
}
extern "C" void tfhe_blindRotateAndExtract_FFT(LweSample *result, const TorusPolynomial *v, const TGswSampleFFT *bk, const int32_t barb,
                                               const int32_t *bara, const int32_t n, const TGswParams *bk_params) {
    REALFN(real, decltype(&tfhe_blindRotateAndExtract_FFT), "tfhe_blindRotateAndExtract_FFT");
    void *a[] = {result, (void *) v, (void *) bk, (void *) (intptr_t) barb, (void *) bara, (void *) (intptr_t) n, (void *) bk_params};
    yield_at(Y_BLINDROT); observe(F_BRE_FFT, 0, a);
    real(result, v, bk, barb, bara, n, bk_params);
    observe(F_BRE_FFT, 1, a); yield_at(Y_BLINDROT);
}
extern "C" void tfhe_blindRotateAndExtract(LweSample *result, const TorusPolynomial *v, const TGswSample *bk, const int32_t barb,
                                           const int32_t *bara, const int32_t n, const TGswParams *bk_params) {
    REALFN(real, decltype(&tfhe_blindRotateAndExtract), "tfhe_blindRotateAndExtract");
    void *a[] = {result, (void *) v, (void *) bk, (void *) (intptr_t) barb, (void *) bara, (void *) (intptr_t) n, (void *) bk_params};
    yield_at(Y_BLINDROT); observe(F_BRE, 0, a);
    real(result, v, bk, barb, bara, n, bk_params);
    observe(F_BRE, 1, a); yield_at(Y_BLINDROT);
}
extern "C" void tfhe_blindRotate_FFT(TLweSample *accum, const TGswSampleFFT *bk, const int32_t *bara, const int32_t n, const TGswParams *bk_params) {
    REALFN(real, decltype(&tfhe_blindRotate_FFT), "tfhe_blindRotate_FFT");
    void *a[] = {accum, (void *) bk, (void *) bara, (void *) (intptr_t) n, (void *) bk_params};
    yield_at(Y_BLINDROT); observe(F_BR_FFT, 0, a);
    real(accum, bk, bara, n, bk_params);
    observe(F_BR_FFT, 1, a); yield_at(Y_BLINDROT);
}
extern "C" void tfhe_blindRotate(TLweSample *accum, const TGswSample *bk, const int32_t *bara, const int32_t n, const TGswParams *bk_params) {
    REALFN(real, decltype(&tfhe_blindRotate), "tfhe_blindRotate");
    void *a[] = {accum, (void *) bk, (void *) bara, (void *) (intptr_t) n, (void *) bk_params};
    yield_at(Y_BLINDROT); observe(F_BR, 0, a);
    real(accum, bk, bara, n, bk_params);
    observe(F_BR, 1, a); yield_at(Y_BLINDROT);
}
// C++ linkage in the library (not EXPORTed): same signature => same mangled name
void tfhe_MuxRotate_FFT(TLweSample *result, const TLweSample *accum, const TGswSampleFFT *bki, const int32_t barai, const TGswParams *bk_params) {
    typedef void (*fn_t)(TLweSample *, const TLweSample *, const TGswSampleFFT *, const int32_t, const TGswParams *);
    REALFN(real, fn_t, "_Z18tfhe_MuxRotate_FFTP10TLweSamplePKS_PK13TGswSampleFFTiPK10TGswParams");
    void *a[] = {result, (void *) accum, (void *) bki, (void *) (intptr_t) barai, (void *) bk_params};
    yield_at(Y_MUXROT); observe(F_MUX_FFT, 0, a);
    real(result, accum, bki, barai, bk_params);
    observe(F_MUX_FFT, 1, a); yield_at(Y_MUXROT);
}
void tfhe_MuxRotate(TLweSample *result, const TLweSample *accum, const TGswSample *bki, const int32_t barai, const TGswParams *bk_params) {
    typedef void (*fn_t)(TLweSample *, const TLweSample *, const TGswSample *, const int32_t, const TGswParams *);
    REALFN(real, fn_t, "_Z14tfhe_MuxRotateP10TLweSamplePKS_PK10TGswSampleiPK10TGswParams");
    void *a[] = {result, (void *) accum, (void *) bki, (void *) (intptr_t) barai, (void *) bk_params};
    yield_at(Y_MUXROT); observe(F_MUX, 0, a);
    real(result, accum, bki, barai, bk_params);
    observe(F_MUX, 1, a); yield_at(Y_MUXROT);
}
extern "C" void tGswFFTExternMulToTLwe(TLweSample *accum, const TGswSampleFFT *gsw, const TGswParams *params) {
    REALFN(real, decltype(&tGswFFTExternMulToTLwe), "tGswFFTExternMulToTLwe");
    void *a[] = {accum, (void *) gsw, (void *) params};
    yield_at(Y_EXTMUL); observe(F_EXTMUL_FFT, 0, a);
    real(accum, gsw, params);
    observe(F_EXTMUL_FFT, 1, a); yield_at(Y_EXTMUL);
}
extern "C" void tGswExternMulToTLwe(TLweSample *accum, const TGswSample *sample, const TGswParams *params) {
    REALFN(real, decltype(&tGswExternMulToTLwe), "tGswExternMulToTLwe");
    void *a[] = {accum, (void *) sample, (void *) params};
    yield_at(Y_EXTMUL); observe(F_EXTMUL, 0, a);
    real(accum, sample, params);
    observe(F_EXTMUL, 1, a); yield_at(Y_EXTMUL);
}
extern "C" void tGswExternProduct(TLweSample *result, const TGswSample *a_, const TLweSample *b, const TGswParams *params) {
    REALFN(real, decltype(&tGswExternProduct), "tGswExternProduct");
    void *a[] = {result, (void *) a_, (void *) b, (void *) params};
    yield_at(Y_EXTMUL); observe(F_EXTPROD, 0, a);
    real(result, a_, b, params);
    observe(F_EXTPROD, 1, a); yield_at(Y_EXTMUL);
}
extern "C" void tGswTorus32PolynomialDecompH(IntPolynomial *result, const TorusPolynomial *sample, const TGswParams *params) {
    REALFN(real, decltype(&tGswTorus32PolynomialDecompH), "tGswTorus32PolynomialDecompH");
    void *a[] = {result, (void *) sample, (void *) params};
    yield_at(Y_DECOMP); observe(F_DECOMP, 0, a);
    real(result, sample, params);
    observe(F_DECOMP, 1, a); yield_at(Y_DECOMP);
}
extern "C" void tLweExtractLweSample(LweSample *result, const TLweSample *x, const LweParams *params, const TLweParams *rparams) {
    REALFN(real, decltype(&tLweExtractLweSample), "tLweExtractLweSample");
    void *a[] = {result, (void *) x, (void *) params, (void *) rparams};
    yield_at(Y_BLINDROT); observe(F_EXTRACT, 0, a);
    real(result, x, params, rparams);
    observe(F_EXTRACT, 1, a); yield_at(Y_BLINDROT);
}

// ---- yield-only seams
#define YV(name, site, params, args) \
    extern "C" void name params { typedef void (*fn_t) params; REALFN(real, fn_t, #name); yield_at(site); real args; yield_at(site); }

YV(fft, Y_FFT_EXEC, (const void *t, double *d), (t, d))
YV(ifft, Y_FFT_EXEC, (const void *t, double *d), (t, d))
YV(fft_transform, Y_FFT_EXEC, (const void *t, double *r, double *i), (t, r, i))
YV(fft_transform_reverse, Y_FFT_EXEC, (const void *t, double *r, double *i), (t, r, i))
YV(fftw_execute, Y_FFT_EXEC, (void *p), (p))
YV(IntPolynomial_ifft, Y_POLY_FFT, (LagrangeHalfCPolynomial * r, const IntPolynomial *p), (r, p))
YV(TorusPolynomial_ifft, Y_POLY_FFT, (LagrangeHalfCPolynomial * r, const TorusPolynomial *p), (r, p))
YV(TorusPolynomial_fft, Y_POLY_FFT, (TorusPolynomial * r, const LagrangeHalfCPolynomial *p), (r, p))
YV(tLweFFTAddMulRTo, Y_EXTMUL, (TLweSampleFFT * r, const LagrangeHalfCPolynomial *p, const TLweSampleFFT *s, const TLweParams *pa), (r, p, s, pa))
YV(tLweFromFFTConvert, Y_EXTMUL, (TLweSample * r, const TLweSampleFFT *s, const TLweParams *pa), (r, s, pa))
YV(tLweFFTClear, Y_EXTMUL, (TLweSampleFFT * r, const TLweParams *pa), (r, pa))
YV(tLweMulByXaiMinusOne, Y_MUXROT, (TLweSample * r, int32_t ai, const TLweSample *bk, const TLweParams *pa), (r, ai, bk, pa))
YV(tLweAddTo, Y_MUXROT, (TLweSample * r, const TLweSample *s, const TLweParams *pa), (r, s, pa))
YV(lweSubTo, Y_LWE_LIN, (LweSample * r, const LweSample *s, const LweParams *pa), (r, s, pa))
YV(lweAddTo, Y_LWE_LIN, (LweSample * r, const LweSample *s, const LweParams *pa), (r, s, pa))
YV(lweAddMulTo, Y_LWE_LIN, (LweSample * r, int32_t p, const LweSample *s, const LweParams *pa), (r, p, s, pa))
YV(lweSubMulTo, Y_LWE_LIN, (LweSample * r, int32_t p, const LweSample *s, const LweParams *pa), (r, p, s, pa))
YV(lweNoiselessTrivial, Y_LWE_LIN, (LweSample * r, Torus32 mu, const LweParams *pa), (r, mu, pa))
YV(lweCopy, Y_LWE_LIN, (LweSample * r, const LweSample *s, const LweParams *pa), (r, s, pa))
YV(lweNegate, Y_LWE_LIN, (LweSample * r, const LweSample *s, const LweParams *pa), (r, s, pa))

extern "C" int32_t modSwitchFromTorus32(Torus32 phase, int32_t Msize) {
    REALFN(real, decltype(&modSwitchFromTorus32), "modSwitchFromTorus32");
    yield_at(Y_MODSWITCH);
    return real(phase, Msize);
}

// ---- FFTW planner (lock discipline)
extern "C" void *fftw_plan_dft_r2c_1d(int n, double *in, void *out, unsigned flags) {
    typedef void *(*fn_t)(int, double *, void *, unsigned);
    REALFN(real, fn_t, "fftw_plan_dft_r2c_1d");
    planner_enter("fftw_plan_dft_r2c_1d");
    void *r = real(n, in, out, flags);
    yield_at(Y_PLANNER);
    return r;
}
extern "C" void *fftw_plan_dft_c2r_1d(int n, void *in, double *out, unsigned flags) {
    typedef void *(*fn_t)(int, void *, double *, unsigned);
    REALFN(real, fn_t, "fftw_plan_dft_c2r_1d");
    planner_enter("fftw_plan_dft_c2r_1d");
    void *r = real(n, in, out, flags);
    yield_at(Y_PLANNER);
    return r;
}

// ---- entropy / time watchdog
extern "C" int rand(void) { static int (*real)(void) = (int (*)(void)) dlsym(RTLD_NEXT, "rand"); watch_hit("rand"); return real(); }
extern "C" long random(void) { static long (*real)(void) = (long (*)(void)) dlsym(RTLD_NEXT, "random"); watch_hit("random"); return real(); }
extern "C" void srand(unsigned s) { static void (*real)(unsigned) = (void (*)(unsigned)) dlsym(RTLD_NEXT, "srand"); watch_hit("srand"); real(s); }
extern "C" void srandom(unsigned s) { static void (*real)(unsigned) = (void (*)(unsigned)) dlsym(RTLD_NEXT, "srandom"); watch_hit("srandom"); real(s); }
extern "C" ssize_t getrandom(void *b, size_t n, unsigned f) {
    static ssize_t (*real)(void *, size_t, unsigned) = (ssize_t (*)(void *, size_t, unsigned)) dlsym(RTLD_NEXT, "getrandom");
    watch_hit("getrandom"); return real(b, n, f);
}
extern "C" int getentropy(void *b, size_t n) {
    static int (*real)(void *, size_t) = (int (*)(void *, size_t)) dlsym(RTLD_NEXT, "getentropy");
    watch_hit("getentropy"); return real(b, n);
}
extern "C" time_t time(time_t *t) { static time_t (*real)(time_t *) = (time_t (*)(time_t *)) dlsym(RTLD_NEXT, "time"); clock_hit("time"); return real(t); }
extern "C" int clock_gettime(clockid_t c, struct timespec *ts) {
    static int (*real)(clockid_t, struct timespec *) = (int (*)(clockid_t, struct timespec *)) dlsym(RTLD_NEXT, "clock_gettime");
    clock_hit("clock_gettime"); return real(c, ts);
}
// libm's trigonometric functions as called by the library (through the PLT): FFT twiddle tables are being computed.  The values
// are libm's own; only the call is a scheduling point for simulated tasks - and only in cold-process runs: whether a thread
// computes tables at all depends on what the process did before (FFTW keeps trigonometric tables process-wide, the nayuki
// back-end shares its tables between the live threads), so in a long-lived worker these yields made the number of scheduler
// steps of a plan depend on the worker's history (5 of 40 sampled plans of the determinism proof had 17-34 steps more in one
// process than in another, same outputs).  A cold run is one forked process per plan: its history is the plan.
static std::atomic<int> g_trig_yields{0};
void sim::set_trig_yields(bool on) { g_trig_yields = on ? 1 : 0; }
extern "C" double sin(double x) {
    static double (*real)(double) = (double (*)(double)) dlsym(RTLD_NEXT, "sin");
    if (g_trig_yields && sched_self() >= 0) yield_at(Y_TABLEINIT);
    return real(x);
}
extern "C" double cos(double x) {
    static double (*real)(double) = (double (*)(double)) dlsym(RTLD_NEXT, "cos");
    if (g_trig_yields && sched_self() >= 0) yield_at(Y_TABLEINIT);
    return real(x);
}
extern "C" void sincos(double x, double *s_, double *c_) {
    static void (*real)(double, double *, double *) = (void (*)(double, double *, double *)) dlsym(RTLD_NEXT, "sincos");
    if (g_trig_yields && sched_self() >= 0) yield_at(Y_TABLEINIT);
    real(x, s_, c_);
}
extern "C" int gettimeofday(struct timeval *tv, void *tz) {
    static int (*real)(struct timeval *, void *) = (int (*)(struct timeval *, void *)) dlsym(RTLD_NEXT, "gettimeofday");
    clock_hit("gettimeofday"); return real(tv, tz);
}
extern "C" clock_t clock(void) { static clock_t (*real)(void) = (clock_t (*)(void)) dlsym(RTLD_NEXT, "clock"); clock_hit("clock"); return real(); }
static inline void watch_path(const char *p) { if (p && (strstr(p, "random") || strstr(p, "/dev/hwrng"))) watch_hit("open(/dev/*random)"); }
extern "C" int open(const char *path, int flags, ...) {
    static int (*real)(const char *, int, ...) = (int (*)(const char *, int, ...)) dlsym(RTLD_NEXT, "open");
    watch_path(path);
    mode_t mode = 0;
    if (flags & (O_CREAT | O_TMPFILE)) { va_list ap; va_start(ap, flags); mode = va_arg(ap, mode_t); va_end(ap); }
    return real(path, flags, mode);
}
extern "C" int open64(const char *path, int flags, ...) {
    static int (*real)(const char *, int, ...) = (int (*)(const char *, int, ...)) dlsym(RTLD_NEXT, "open64");
    watch_path(path);
    mode_t mode = 0;
    if (flags & (O_CREAT | O_TMPFILE)) { va_list ap; va_start(ap, flags); mode = va_arg(ap, mode_t); va_end(ap); }
    return real(path, flags, mode);
}
extern "C" FILE *fopen(const char *path, const char *mode) {
    static FILE *(*real)(const char *, const char *) = (FILE * (*) (const char *, const char *)) dlsym(RTLD_NEXT, "fopen");
    watch_path(path); return real(path, mode);
}
extern "C" FILE *fopen64(const char *path, const char *mode) {
    static FILE *(*real)(const char *, const char *) = (FILE * (*) (const char *, const char *)) dlsym(RTLD_NEXT, "fopen64");
    watch_path(path); return real(path, mode);
}
// std::random_device::_M_getval()
extern "C" unsigned int _ZNSt13random_device9_M_getvalEv(void *self) {
    static unsigned int (*real)(void *) = (unsigned int (*)(void *)) dlsym(RTLD_NEXT, "_ZNSt13random_device9_M_getvalEv");
    watch_hit("std::random_device"); return real(self);
}
