// Serialising seeded scheduler over real pthreads (DESIGN.md 3.3).
// Exactly one simulated task runs at a time; at every yield point (interposed
// library call) the running task asks the decision stream who runs next.
#pragma once
#include "core.h"
#include <functional>

namespace sim {

// yield sites (bit positions in the per-run site mask)
enum Site {
    Y_FFT_EXEC = 0,     // ifft/fft/fft_transform(_reverse)/fftw_execute : before and after the transform
    Y_POLY_FFT,         // IntPolynomial_ifft / TorusPolynomial_ifft / TorusPolynomial_fft
    Y_DECOMP,           // tGswTorus32PolynomialDecompH
    Y_EXTMUL,           // tGswFFTExternMulToTLwe, tLweFFTAddMulRTo, tLweFromFFTConvert, tLweFFTClear
    Y_MUXROT,           // tfhe_MuxRotate_FFT, tLweMulByXaiMinusOne, tLweAddTo
    Y_BLINDROT,         // tfhe_blindRotate(_AndExtract)_FFT, tLweExtractLweSample
    Y_MODSWITCH,        // modSwitchFromTorus32
    Y_BOOTSTRAP,        // tfhe_bootstrap(_woKS)_FFT
    Y_KEYSWITCH,        // lweKeySwitch
    Y_LWE_LIN,          // lweSubTo/lweAddTo/lweAddMulTo/lweSubMulTo/lweNoiselessTrivial/lweCopy/lweNegate
    Y_PLANNER,          // fftw_plan_* / fftw_destroy_plan
    Y_MUTEX,            // pthread_mutex_lock/unlock
    Y_APP,              // explicit yields placed by scenarios (between operations)
    Y_ALLOC,            // new_LweSample / delete_LweSample etc. seen through the gate path
    Y_TABLEINIT,        // sin / cos / sincos called by the library: the windows in which FFT tables are being computed
    Y_NSITES
};
const char *site_name(int s);

struct SchedConfig {
    uint64_t seed = 1;
    int strategy = 0;          // 0 random walk, 1 PCT, 2 round-robin-ish sticky
    double p_switch = 0.1;     // random walk: probability of considering a switch at an enabled yield
    uint32_t site_mask = 0xffffffff;
    int pct_depth = 2;
    uint64_t pct_est_steps = 4000;
    bool explicit_sched = false;
    std::vector<std::pair<uint64_t, int>> sw;   // explicit switches (step -> task)
    uint64_t max_steps = 50000000;
};

struct SchedResult {
    std::vector<std::pair<uint64_t, int>> trace;  // every change of running task (step, task)
    uint64_t steps = 0, yields = 0, switches = 0;
    uint64_t sched_hash = 0;
    std::map<std::string, uint64_t> site_hits;    // yields per site (reach)
    bool deadlock = false;
    bool step_limit = false;
    std::string planner_violation;                // lock-discipline oracle (C06 d)
    uint64_t planner_calls = 0;
};

// runs the tasks to completion under the scheduler; tasks may call spawn()/join()
SchedResult sched_run(const SchedConfig &cfg, std::vector<std::function<void()>> tasks);
int sched_spawn(std::function<void()> fn);   // from inside a task; returns task id
void sched_join(int task);                   // from inside a task
int sched_self();                            // task id or -1
void sim_yield(int site);                  // yield point; no-op outside sched_run / non-task threads

} // namespace sim
