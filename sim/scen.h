// Scenario registry: every scenario is gen(seed, opts) -> Plan and exec(Plan) -> RunResult.
#pragma once
#include "core.h"
#include "env.h"
#include "simsched.h"
#include "seams.h"
#include "wire.h"

namespace sim {
struct Scenario {
    const char *name;
    Plan (*gen)(uint64_t seed, const Op &opts);
    void (*exec)(const Plan &p, RunResult &r);
};
const Scenario *find_scenario(const std::string &name);
std::vector<const Scenario *> &scenario_list();
struct ScenarioReg { ScenarioReg(const Scenario *s) { scenario_list().push_back(s); } };

// helpers shared by scenarios
std::string fmt(const char *f, ...) __attribute__((format(printf, 1, 2)));
ParamSpec spec_from_opts(const Op &opts, Rng &r);   // opts spec=P128|P80|swarm[:maxn]
SchedConfig sched_from_plan(const Plan &p);
void sched_to_plan(Plan &p, Rng &r, int ntasks);
extern const char *g_backend;   // name of the FFT back-end this executable is linked against
extern const char *g_variant;   // build variant
} // namespace sim
