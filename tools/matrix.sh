#!/bin/bash
# runs every confirmed seeded change against the check of its own property (plus extra checks given as "id:prop,prop")
cd "$(dirname "$0")/.."
OUT=seeded/RESULTS.txt
: > $OUT.tmp
for d in seeded/*/; do
  id=$(basename $d); prop=${id%%-*}
  extra=""
  case $id in C02-a|C15-b) extra="C15 C02";; C02-b) extra="C07";; C16-a) extra="C06";; C06-c|C04-a) extra="C04 C06";; esac
  props="$prop"; for e in $extra; do [ "$e" != "$prop" ] && props="$props $e"; done
  tools/try_seeded.sh $id $props >> $OUT.tmp 2>&1
done
mv $OUT.tmp $OUT
echo FINISHED >> $OUT
