// Core of the deterministic simulator: PRNG, hashing, plans (decision lists),
// result records, probe/fault counters.  Header-only.
#pragma once
#include <cstdint>
#include <cstdio>
#include <cstdlib>
#include <cstring>
#include <map>
#include <sstream>
#include <string>
#include <vector>

namespace sim {

// ---------------------------------------------------------------- PRNG
static inline uint64_t splitmix64(uint64_t &x) {
    uint64_t z = (x += 0x9E3779B97F4A7C15ull);
    z = (z ^ (z >> 30)) * 0xBF58476D1CE4E5B9ull;
    z = (z ^ (z >> 27)) * 0x94D049BB133111EBull;
    return z ^ (z >> 31);
}
static inline uint64_t mix64(uint64_t a, uint64_t b) {
    uint64_t x = a ^ (b * 0x9E3779B97F4A7C15ull) ^ 0xD1B54A32D192ED03ull;
    splitmix64(x);
    return splitmix64(x);
}
struct Rng {
    uint64_t s[4];
    uint64_t draws = 0;
    explicit Rng(uint64_t seed = 1) { reseed(seed); }
    void reseed(uint64_t seed) {
        uint64_t x = seed;
        for (int i = 0; i < 4; i++) s[i] = splitmix64(x);
        draws = 0;
    }
    static inline uint64_t rotl(uint64_t x, int k) { return (x << k) | (x >> (64 - k)); }
    uint64_t next() {
        draws++;
        uint64_t r = rotl(s[1] * 5, 7) * 9, t = s[1] << 17;
        s[2] ^= s[0]; s[3] ^= s[1]; s[1] ^= s[2]; s[0] ^= s[3]; s[2] ^= t; s[3] = rotl(s[3], 45);
        return r;
    }
    uint64_t below(uint64_t n) { return n ? next() % n : 0; }
    int64_t range(int64_t lo, int64_t hi) { return lo + (int64_t) below((uint64_t)(hi - lo + 1)); }
    double unit() { return (next() >> 11) * (1.0 / 9007199254740992.0); }
    bool bern(double p) { return unit() < p; }
    template<class T> const T &pick(const std::vector<T> &v) { return v[below(v.size())]; }
};

// ---------------------------------------------------------------- hashing
struct Hash {
    uint64_t h = 0xcbf29ce484222325ull;
    void bytes(const void *p, size_t n) {
        const unsigned char *c = (const unsigned char *) p;
        // 8 bytes at a time, FNV-like with a strong finaliser
        while (n >= 8) { uint64_t w; memcpy(&w, c, 8); h = (h ^ w) * 0x100000001b3ull; h ^= h >> 29; c += 8; n -= 8; }
        while (n--) { h = (h ^ *c++) * 0x100000001b3ull; }
        h ^= h >> 32;
    }
    void u64(uint64_t v) { bytes(&v, 8); }
    void str(const std::string &s) { bytes(s.data(), s.size()); u64(s.size()); }
    uint64_t get() const { uint64_t x = h; return splitmix64(x); }
};
static inline uint64_t hash_bytes(const void *p, size_t n) { Hash h; h.bytes(p, n); h.u64(n); return h.get(); }
static inline std::string hex64(uint64_t v) { char b[20]; snprintf(b, sizeof b, "%016llx", (unsigned long long) v); return b; }

// ---------------------------------------------------------------- plans
// A plan is the explicit decision list of one simulated run.  It is generated
// from a seed by gen(seed) and executed by exec(plan); replay files carry the
// plan itself, so minimisation can drop / shrink lines.
struct Op {
    std::string kind;                              // "cfg", "op", "sw", ...
    std::vector<std::pair<std::string, std::string>> kv;
    const std::string *find(const std::string &k) const {
        for (auto &p : kv) if (p.first == k) return &p.second;
        return nullptr;
    }
    bool has(const std::string &k) const { return find(k) != nullptr; }
    std::string gets(const std::string &k, const std::string &d = "") const { auto *v = find(k); return v ? *v : d; }
    int64_t geti(const std::string &k, int64_t d = 0) const { auto *v = find(k); return v ? strtoll(v->c_str(), 0, 0) : d; }
    uint64_t getu(const std::string &k, uint64_t d = 0) const { auto *v = find(k); return v ? strtoull(v->c_str(), 0, 0) : d; }
    double getd(const std::string &k, double d = 0) const { auto *v = find(k); return v ? strtod(v->c_str(), 0) : d; }
    Op &set(const std::string &k, const std::string &v) {
        for (auto &p : kv) if (p.first == k) { p.second = v; return *this; }
        kv.emplace_back(k, v); return *this;
    }
    Op &seti(const std::string &k, int64_t v) { return set(k, std::to_string(v)); }
    Op &setu(const std::string &k, uint64_t v) { return set(k, std::to_string(v)); }
    Op &setd(const std::string &k, double v) { char b[40]; snprintf(b, sizeof b, "%.17g", v); return set(k, b); }
    std::string str() const {
        std::string s = kind;
        for (auto &p : kv) { s += " "; s += p.first; s += "="; s += p.second; }
        return s;
    }
    static Op parse(const std::string &line) {
        Op o; std::istringstream is(line); std::string tok;
        is >> o.kind;
        while (is >> tok) {
            size_t e = tok.find('=');
            if (e == std::string::npos) o.kv.emplace_back(tok, "");
            else o.kv.emplace_back(tok.substr(0, e), tok.substr(e + 1));
        }
        return o;
    }
};

struct Plan {
    std::string scenario;
    uint64_t seed = 0;
    Op cfg;                       // kind "cfg"
    std::vector<Op> ops;          // kind "op"
    std::vector<std::pair<uint64_t, int>> sw; // explicit schedule: at yield #step run task
    bool explicit_sched = false;  // if true, scheduler follows sw only
    std::string str() const {
        std::string s = "plan scenario=" + scenario + " seed=" + std::to_string(seed) + (explicit_sched ? " explicit_sched=1" : "") + "\n";
        s += cfg.str() + "\n";
        for (auto &o : ops) s += o.str() + "\n";
        for (auto &p : sw) s += "sw step=" + std::to_string(p.first) + " task=" + std::to_string(p.second) + "\n";
        return s;
    }
    static Plan parse(const std::string &text) {
        Plan p; p.cfg.kind = "cfg";
        std::istringstream is(text); std::string line;
        while (std::getline(is, line)) {
            if (line.empty() || line[0] == '#') continue;
            Op o = Op::parse(line);
            if (o.kind == "plan") { p.scenario = o.gets("scenario"); p.seed = o.getu("seed"); p.explicit_sched = o.geti("explicit_sched") != 0; }
            else if (o.kind == "cfg") p.cfg = o;
            else if (o.kind == "op") p.ops.push_back(o);
            else if (o.kind == "sw") p.sw.emplace_back(o.getu("step"), (int) o.geti("task"));
        }
        return p;
    }
};

// ---------------------------------------------------------------- counters
// Fired-fault counters and "rare condition was hit" probes; per run, merged by the driver.
struct Counters {
    std::map<std::string, uint64_t> m;
    void add(const std::string &k, uint64_t n = 1) { m[k] += n; }
    void clear() { m.clear(); }
};

// ---------------------------------------------------------------- JSON out (writer only)
static inline std::string jesc(const std::string &s) {
    std::string o;
    for (unsigned char c : s) {
        if (c == '"' || c == '\\') { o += '\\'; o += (char) c; }
        else if (c == '\n') o += "\\n";
        else if (c < 0x20) { char b[8]; snprintf(b, sizeof b, "\\u%04x", c); o += b; }
        else o += (char) c;
    }
    return o;
}
struct JObj {
    std::string s = "{";
    bool first = true;
    void key(const std::string &k) { if (!first) s += ","; first = false; s += "\"" + jesc(k) + "\":"; }
    JObj &str(const std::string &k, const std::string &v) { key(k); s += "\"" + jesc(v) + "\""; return *this; }
    JObj &num(const std::string &k, int64_t v) { key(k); s += std::to_string(v); return *this; }
    JObj &unum(const std::string &k, uint64_t v) { key(k); s += std::to_string(v); return *this; }
    JObj &dbl(const std::string &k, double v) { key(k); char b[40]; snprintf(b, sizeof b, "%.17g", v); s += (v != v || v - v != 0) ? "null" : b; return *this; }
    JObj &raw(const std::string &k, const std::string &v) { key(k); s += v; return *this; }
    JObj &map(const std::string &k, const std::map<std::string, uint64_t> &m) {
        JObj o; for (auto &p : m) o.unum(p.first, p.second); return raw(k, o.done());
    }
    std::string done() const { return s + "}"; }
};

// ---------------------------------------------------------------- violations
// The driver tells the worker which oracle families decide the property being checked (e.g. "C01.,C04.").  An oracle of another
// family that fires is only counted: the run goes on, so that the property's own oracles still get their chance in the same run.
inline std::vector<std::string> g_oracle_filter;
inline std::map<std::string, uint64_t> g_other_oracles;
inline std::map<std::string, std::string> g_other_oracle_detail;
struct Violation {
    bool set = false;
    std::string cls;      // violation class, held fixed while minimising
    std::string oracle;   // which oracle fired
    std::string detail;   // expected/actual
    int op_index = -1;
    void raise(const std::string &c, const std::string &o, const std::string &d, int idx = -1) {
        if (set) return;   // first failing oracle is the reported one
        if (!g_oracle_filter.empty()) {
            bool mine = false;
            for (auto &p : g_oracle_filter) if (o.compare(0, p.size(), p) == 0) mine = true;
            if (!mine) { g_other_oracles[o]++; if (!g_other_oracle_detail.count(o)) g_other_oracle_detail[o] = d; return; }
        }
        set = true; cls = c; oracle = o; detail = d; op_index = idx;
    }
};

// Result of one simulated run.
struct RunResult {
    Violation v;
    Counters faults;      // fault kinds that actually fired
    Counters probes;      // rare-condition probes
    Hash ev;              // event-log hash (decisions, outputs)
    uint64_t steps = 0;   // scheduler steps / simulated operations
    uint64_t switches = 0;
    uint64_t sched_hash = 0; // hash of context-switch sequence
    bool nontrivial = false;
    uint64_t case_hash = 0;  // identifies (config, fault multiset, schedule) for distinct counting
    std::string sample;      // short human-readable description of the case
    std::map<std::string, double> stats; // numeric outputs merged by the driver (sums etc.)
    std::vector<std::string> known;      // known-finding keys matched in this run
    std::string explicit_plan;           // on violation: the plan with the schedule made explicit (sw lines), for minimisation/replay
};

} // namespace sim
