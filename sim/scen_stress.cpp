// Auxiliary to C06: free-running stress (NO serialising scheduler).  Batches of real threads start together behind a
// barrier, evaluate gates with one shared cloud key into private outputs and exit, while the main thread keeps
// evaluating; outputs are compared with a sequential reference.  Built with -fsanitize=thread this is where data races
// that cannot be *scheduled* at interposed calls (races inside straight-line code) are seen.  A report makes the
// worker die with exit code 66; the driver classifies it.  Replays are statistical, not exact (DESIGN.md 5/C06).
#include "scen.h"
#include <pthread.h>
#include <atomic>
#include <numeric_functions.h>

namespace sim {
namespace {

static Plan gen_stress(uint64_t seed, const Op &opts) {
    Rng r(seed);
    Plan p; p.scenario = "stress"; p.seed = seed; p.cfg.kind = "cfg";
    ParamSpec sp = spec_from_opts(opts, r);
    p.cfg.set("spec", sp.str());
    p.cfg.setu("kseed", mix64(opts.getu("keybase", 7), r.below((uint64_t) opts.geti("nkeys", 1))));
    p.cfg.seti("batches", (int) opts.geti("batches", 4 + (int) r.below(8))).seti("threads", 2 + (int) r.below((uint64_t) opts.geti("maxw", 8)));
    p.cfg.seti("gates", 1 + (int) r.below(3)).seti("main_gates", 2 + (int) r.below(4));
    Op o; o.kind = "op"; o.set("k", "stress").setu("s", r.next()); p.ops.push_back(o);
    return p;
}

struct Worker { KeyCtx *kc; const std::vector<LweSample *> *inputs; pthread_barrier_t *bar; uint64_t seed; int gates; std::vector<uint64_t> out; };
static void eval_list(KeyCtx *kc, const std::vector<LweSample *> &in, uint64_t seed, int gates, std::vector<uint64_t> &out) {
    Rng r(seed);
    LweSample *o = new_gate_bootstrapping_ciphertext(kc->params);
    for (int i = 0; i < gates; i++) {
        int g; do g = (int) r.below(G_COUNT); while (g == G_CONSTANT);
        gate_apply(g, o, in[r.below(in.size())], in[r.below(in.size())], in[r.below(in.size())], 0, kc->ck);
        out.push_back(obs::hash_lwe(o, kc->n));
    }
    delete_gate_bootstrapping_ciphertext(o);
}
// a client on its own thread with its own key material: key generation and encryption (other message spaces, the library
// generator) run while the workers evaluate; nothing it does may be visible to them
struct Client { pthread_barrier_t *bar; std::atomic<int> *stop; uint64_t rounds; };
static void *client_main(void *v) {
    Client *c = (Client *) v;
    LweParams *lp = new_LweParams(12, 1e-5, 0.1); LweKey *lk = new_LweKey(lp); lweKeyGen(lk);
    LweSample *s = new_LweSample(lp);
    pthread_barrier_wait(c->bar);
    while (!c->stop->load()) {
        for (int m = 2; m < 20; m++) { Torus32 mu = modSwitchToTorus32(1, m); lweSymEncrypt(s, mu, 1e-5, lk); (void) lweSymDecrypt(s, lk, m); }
        lweKeyGen(lk);
        c->rounds++;
    }
    delete_LweSample(s); delete_LweKey(lk); delete_LweParams(lp);
    return nullptr;
}
static void *worker_main(void *v) {
    Worker *w = (Worker *) v;
    pthread_barrier_wait(w->bar);    // all threads of a batch make their first FFT call at the same moment
    eval_list(w->kc, *w->inputs, w->seed, w->gates, w->out);
    return nullptr;
}

static void exec_stress(const Plan &p, RunResult &r) {
    ParamSpec sp = ParamSpec::parse(p.cfg.gets("spec"));
    KeyCtx *kc = get_key(sp, p.cfg.getu("kseed"));
    lib_seed(mix64(p.seed, 0x57e55));
    std::vector<LweSample *> inputs;
    for (int i = 0; i < 4; i++) { LweSample *c = new_gate_bootstrapping_ciphertext(kc->params); bootsSymEncrypt(c, i & 1, kc->sk); inputs.push_back(c); }
    int B = (int) p.cfg.geti("batches", 4), W = (int) p.cfg.geti("threads", 4), G = (int) p.cfg.geti("gates", 1), MG = (int) p.cfg.geti("main_gates", 2);
    uint64_t s0 = p.ops.empty() ? 1 : p.ops[0].getu("s");
    uint64_t cloud0 = obs::hash_cloud(kc->ck);
    uint64_t mism = 0;
    for (int b = 0; b < B && !r.v.set; b++) {
        // sequential reference for this batch
        std::vector<std::vector<uint64_t>> ref((size_t) W + 1);
        for (int t = 0; t <= W; t++) eval_list(kc, inputs, mix64(s0, (uint64_t) b * 100 + (uint64_t) t), t == W ? MG : G, ref[(size_t) t]);
        pthread_barrier_t bar; pthread_barrier_init(&bar, nullptr, (unsigned) W + 1);
        std::atomic<int> stop{0}; Client cl{&bar, &stop, 0}; pthread_t cth; pthread_create(&cth, nullptr, client_main, &cl);
        std::vector<Worker> ws((size_t) W); std::vector<pthread_t> th((size_t) W);
        for (int t = 0; t < W; t++) { ws[(size_t) t] = Worker{kc, &inputs, &bar, mix64(s0, (uint64_t) b * 100 + (uint64_t) t), G, {}}; pthread_create(&th[(size_t) t], nullptr, worker_main, &ws[(size_t) t]); }
        std::vector<uint64_t> mainout;
        eval_list(kc, inputs, mix64(s0, (uint64_t) b * 100 + (uint64_t) W), MG, mainout);   // the long-lived thread keeps evaluating
        for (int t = 0; t < W; t++) pthread_join(th[(size_t) t], nullptr);
        stop.store(1); pthread_join(cth, nullptr); r.probes.add("client_rounds_alongside", cl.rounds);
        pthread_barrier_destroy(&bar);
        for (int t = 0; t < W; t++) if (ws[(size_t) t].out != ref[(size_t) t]) mism++;
        if (mainout != ref[(size_t) W]) mism++;
        r.steps += (uint64_t) W;
    }
    if (mism) r.v.raise("output-differs", "C06.stress-bytes", fmt("%llu of the concurrently evaluated gate lists differ from the sequential reference (free-running threads, %d batches of %d)", (unsigned long long) mism, B, W));
    if (obs::hash_cloud(kc->ck) != cloud0) r.v.raise("key-modified", "C06.shared-key", "shared cloud key modified during free-running evaluation");
    for (auto *c : inputs) delete_gate_bootstrapping_ciphertext(c);
    r.faults.add("thread-batches", (uint64_t) B); r.faults.add("threads-created", (uint64_t) B * (uint64_t) W);
    Hash ch; ch.str(p.cfg.str()); r.case_hash = ch.get(); r.nontrivial = true;
    r.ev.u64(s0);   // (outputs are compared with the reference, not hashed: thread timing is not controlled here)
    r.sample = fmt("spec=%s batches=%d threads=%d gates=%d (free-running)", sp.str().c_str(), B, W, G);
}
const Scenario SC = {"stress", gen_stress, exec_stress};
ScenarioReg reg(&SC);
} // namespace
} // namespace sim

#if defined(__SANITIZE_THREAD__)
extern "C" __attribute__((used, visibility("default"))) const char *__tsan_default_options() {
    return "halt_on_error=1:exitcode=66:second_deadlock_stack=1:report_signal_unsafe=0:history_size=4";
}
#endif
