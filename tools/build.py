#!/usr/bin/env python3
"""Build matrix for the deterministic simulator.

Builds the five tfhe back-end libraries from the *current* /repo/src working
tree with the repository's own CMake files (so edits to sources and to CMake
files are honoured), once per variant, plus the simulator executable `dsim`
linked against each back-end.  Everything lands in
/verif/.cache/<tree-hash>/...; at most KEEP tree hashes are kept.

Variants
  optim, debug            as shipped (CMAKE_BUILD_TYPE)
  optim-asan, debug-asan  + -fsanitize=address,undefined (no signed-integer-overflow:
                          Torus32 arithmetic wraps in int32_t by design)
  optim-tsan              + -fsanitize=thread         (auxiliary, C06 thorough)

The guard define -DTFHE_VERIF_SIM is passed to every build (no source in /repo
needs it today: all seams are ELF interposition, see DESIGN.md 3.1).
"""
import fcntl
import hashlib
import os
import shutil
import subprocess
import sys
import time

REPO = os.environ.get("VERIF_REPO", "/repo")
VERIF = os.path.dirname(os.path.dirname(os.path.abspath(__file__)))
CACHE = os.path.join(VERIF, ".cache")
KEEP = 2
BACKENDS = ["spqlios-fma", "spqlios-avx", "nayuki-avx", "nayuki-portable", "fftw"]
GUARD = "-DTFHE_VERIF_SIM"

SAN = {
    "asan": "-fsanitize=address,undefined -fno-sanitize=signed-integer-overflow,shift-base,shift-exponent,null,vptr -fno-omit-frame-pointer -fno-sanitize-recover=undefined",
    "tsan": "-fsanitize=thread -fno-omit-frame-pointer",
}

SIM_SRCS = None  # filled from sim/*.cpp


def tree_hash():
    h = hashlib.sha1()
    root = os.path.join(REPO, "src")
    files = []
    for d, dirs, fs in os.walk(root):
        dirs[:] = sorted(x for x in dirs if x not in ("googletest", ".git"))
        for f in sorted(fs):
            files.append(os.path.join(d, f))
    for p in sorted(files):
        h.update(os.path.relpath(p, root).encode())
        h.update(b"\0")
        try:
            with open(p, "rb") as fh:
                h.update(hashlib.sha1(fh.read()).digest())
        except OSError:
            pass
    return h.hexdigest()[:14]


def sim_hash():
    h = hashlib.sha1()
    h.update(repr(sorted(SAN.items())).encode())
    simroot = os.path.join(VERIF, "sim")
    for d, dirs, fs in os.walk(simroot):
        dirs.sort()
        for f in sorted(fs):
            p = os.path.join(d, f)
            h.update(os.path.relpath(p, simroot).encode())
            with open(p, "rb") as fh:
                h.update(hashlib.sha1(fh.read()).digest())
    return h.hexdigest()[:10]


def run(cmd, cwd=None, log=None, env=None):
    p = subprocess.run(cmd, cwd=cwd, stdout=subprocess.PIPE, stderr=subprocess.STDOUT, env=env)
    if log:
        with open(log, "ab") as fh:
            fh.write(("$ " + " ".join(cmd) + "\n").encode())
            fh.write(p.stdout)
    return p.returncode, p.stdout.decode(errors="replace")


def prune(keep_hash):
    if not os.path.isdir(CACHE):
        return
    ents = []
    for e in os.listdir(CACHE):
        p = os.path.join(CACHE, e)
        if os.path.isdir(p) and len(e) == 14:
            ents.append((os.path.getmtime(p), e))
    ents.sort(reverse=True)
    kept = 0
    now = time.time()
    for mt, e in ents:
        if e == keep_hash:
            continue
        kept += 1
        if kept >= KEEP and now - mt > 5400:   # never delete a tree another running check may still be using
            shutil.rmtree(os.path.join(CACHE, e), ignore_errors=True)


def variant_parts(variant):
    parts = variant.split("-")
    bt = parts[0]
    san = parts[1] if len(parts) > 1 else None
    return bt, san


def build_lib(th, variant):
    """cmake+make the five shared libs for one variant; returns dir with the .so files"""
    bt, san = variant_parts(variant)
    fl = hashlib.sha1((SAN.get(san, "") + GUARD).encode()).hexdigest()[:6]
    bdir = os.path.join(CACHE, th, "lib-%s-%s" % (variant, fl))
    stamp = os.path.join(bdir, "OK")
    libdir = os.path.join(bdir, "libtfhe")
    if os.path.exists(stamp):
        return libdir
    shutil.rmtree(bdir, ignore_errors=True)
    os.makedirs(bdir)
    log = os.path.join(bdir, "build.log")
    extra = GUARD
    ld = ""
    if san:
        extra += " " + SAN[san]
        ld = SAN[san].split(" -fno-omit")[0]
    hsw = []
    if bt == "hsw":
        # valgrind twin: the optim flags with -march=haswell (valgrind 3.19 cannot execute the AVX-512 code -march=native emits here)
        hsw = ["-DCMAKE_CXX_FLAGS_HSW=-std=gnu++11 -g3 -march=haswell -O2 -DNDEBUG -funroll-loops -Wall -Werror",
               "-DCMAKE_C_FLAGS_HSW=-g3 -march=haswell -O3 -DNDEBUG -funroll-loops -Wall -Werror"]
    cmd = ["cmake", os.path.join(REPO, "src"), "-DCMAKE_BUILD_TYPE=" + bt, "-DENABLE_TESTS=off"] + hsw + [
           "-DENABLE_FFTW=on", "-DENABLE_NAYUKI_PORTABLE=on", "-DENABLE_NAYUKI_AVX=on",
           "-DENABLE_SPQLIOS_AVX=on", "-DENABLE_SPQLIOS_FMA=on",
           "-DCMAKE_CXX_FLAGS=" + extra, "-DCMAKE_C_FLAGS=" + extra,
           "-DCMAKE_SHARED_LINKER_FLAGS=" + ld]
    rc, out = run(cmd, cwd=bdir, log=log)
    if rc != 0:
        raise SystemExit("BUILD-ERROR cmake failed for %s, see %s\n%s" % (variant, log, out[-3000:]))
    rc, out = run(["make", "-j16"], cwd=bdir, log=log)
    if rc != 0:
        raise SystemExit("BUILD-ERROR make failed for %s, see %s\n%s" % (variant, log, out[-3000:]))
    for b in BACKENDS:
        if not os.path.exists(os.path.join(libdir, "libtfhe-%s.so" % b)):
            raise SystemExit("BUILD-ERROR missing libtfhe-%s.so in %s" % (b, libdir))
    open(stamp, "w").write(time.ctime())
    return libdir


def sim_sources():
    d = os.path.join(VERIF, "sim")
    return sorted(os.path.join(d, f) for f in os.listdir(d) if f.endswith(".cpp"))


def build_sim_objs(th, flavour):
    """compile the simulator objects once per flavour (plain|asan|tsan)"""
    odir = os.path.join(CACHE, th, "sim-" + sim_hash(), "simobj-" + flavour)
    stamp = os.path.join(odir, "OK")
    if os.path.exists(stamp):
        return odir
    shutil.rmtree(odir, ignore_errors=True)
    os.makedirs(odir)
    flags = ["-std=gnu++17", "-O1", "-g", "-fPIC", "-Wall", "-Wno-unused-function", "-pthread", GUARD,
             "-I" + os.path.join(REPO, "src", "include"), "-I" + os.path.join(VERIF, "sim")]
    if flavour != "plain":
        flags += SAN[flavour].split()
    procs = []
    for s in sim_sources():
        o = os.path.join(odir, os.path.basename(s)[:-4] + ".o")
        procs.append((s, subprocess.Popen(["g++"] + flags + ["-c", s, "-o", o], stdout=subprocess.PIPE,
                                          stderr=subprocess.STDOUT)))
    bad = []
    for s, p in procs:
        out, _ = p.communicate()
        if p.returncode != 0:
            bad.append((s, out.decode(errors="replace")))
    if bad:
        raise SystemExit("BUILD-ERROR simulator does not compile against the current tree:\n" +
                         "\n".join("%s:\n%s" % (s, o[-4000:]) for s, o in bad))
    open(stamp, "w").write(time.ctime())
    return odir


def build_sim(th, variant, backend):
    bt, san = variant_parts(variant)
    flavour = san or "plain"
    libdir = build_lib(th, variant)
    odir = build_sim_objs(th, flavour)
    bindir = os.path.join(CACHE, th, "sim-" + sim_hash(), "bin")
    os.makedirs(bindir, exist_ok=True)
    exe = os.path.join(bindir, "dsim-%s-%s" % (backend, variant))
    if os.path.exists(exe):
        return exe
    objs = sorted(os.path.join(odir, f) for f in os.listdir(odir) if f.endswith(".o"))
    cmd = ["g++", "-o", exe + ".tmp"] + objs + ["-rdynamic", "-L" + libdir, "-ltfhe-" + backend,
                                                 "-Wl,-rpath," + libdir, "-ldl", "-pthread"]
    if san:
        cmd += SAN[san].split(" -fno-omit")[0].split()
    rc, out = run(cmd)
    if rc != 0:
        raise SystemExit("BUILD-ERROR link failed for %s:\n%s" % (exe, out[-4000:]))
    os.replace(exe + ".tmp", exe)
    return exe


def ensure(variants, backends=None):
    """returns {(backend, variant): exe}; serialised by a lock file so that
    concurrent checks share one build"""
    backends = backends or BACKENDS
    os.makedirs(CACHE, exist_ok=True)
    lock = open(os.path.join(CACHE, ".lock"), "w")
    fcntl.flock(lock, fcntl.LOCK_EX)
    try:
        th = tree_hash()
        os.makedirs(os.path.join(CACHE, th), exist_ok=True)
        os.utime(os.path.join(CACHE, th))
        sh = "sim-" + sim_hash()
        for e in os.listdir(os.path.join(CACHE, th)):
            pe = os.path.join(CACHE, th, e)
            if e.startswith("sim-") and e != sh and time.time() - os.path.getmtime(pe) > 5400:
                shutil.rmtree(pe, ignore_errors=True)
        out = {}
        for v in variants:
            for b in backends:
                out[(b, v)] = build_sim(th, v, b)
        prune(th)
        return th, out
    finally:
        fcntl.flock(lock, fcntl.LOCK_UN)
        lock.close()


if __name__ == "__main__":
    vs = sys.argv[1:] or ["optim", "debug", "optim-asan", "debug-asan"]
    t0 = time.time()
    th, exes = ensure(vs)
    print("tree", th, "built", len(exes), "executables in %.1fs" % (time.time() - t0))
