#include "simsched.h"
#include <pthread.h>
#include <semaphore.h>
#include <dlfcn.h>
#include <unistd.h>
#include <set>
#include <memory>
#include <algorithm>

namespace sim {

static const char *SN[Y_NSITES] = {"fft_exec", "poly_fft", "decomp", "extmul", "muxrot", "blindrot", "modswitch", "bootstrap",
                                   "keyswitch", "lwe_lin", "planner", "mutex", "app", "alloc", "tableinit"};
const char *site_name(int s) { return (s >= 0 && s < Y_NSITES) ? SN[s] : "?"; }

enum St { T_NEW, T_RUNNABLE, T_BLOCKED_MUTEX, T_BLOCKED_JOIN, T_FINISHING, T_DONE };
struct Task {
    int id = 0;
    pthread_t th;
    sem_t sem;
    std::function<void()> fn;
    St st = T_NEW;
    void *wait_mutex = nullptr;
    int wait_join = -1;
    std::set<void *> held;
    int64_t prio = 0;
};

static struct G {
    bool active = false;
    std::vector<std::unique_ptr<Task>> tasks;
    int cur = -1;
    Rng rng;
    SchedConfig cfg;
    SchedResult res;
    Hash shash;
    sem_t hub;
    int finishing = -1;
    size_t sw_pos = 0;
    std::vector<uint64_t> pct_points;
    std::map<void *, int> mutex_owner;
    uint64_t site_hits[Y_NSITES] = {0};
    // planner lock discipline
    bool planner_seen = false;
    std::set<void *> planner_common;
    std::set<int> planner_tasks;
} g;

static thread_local Task *tl_task = nullptr;

int sched_self() { return tl_task ? tl_task->id : -1; }

static void fatal(const char *msg) {
    fprintf(stderr, "SIM-ERROR scheduler: %s\n", msg);
    fflush(stderr);
    _exit(2);
}

// decide who runs next; must = the current task cannot continue
static int decide(bool must, bool site_enabled) {
    g.res.steps++;
    uint64_t step = g.res.steps;
    std::vector<int> runnable;
    for (auto &t : g.tasks) if (t->st == T_RUNNABLE) runnable.push_back(t->id);
    if (runnable.empty()) return -1;
    bool cur_ok = g.cur >= 0 && g.tasks[g.cur]->st == T_RUNNABLE && !must;
    int choice = -1;
    if (g.cfg.explicit_sched) {
        while (g.sw_pos < g.cfg.sw.size() && g.cfg.sw[g.sw_pos].first < step) g.sw_pos++;
        if (g.sw_pos < g.cfg.sw.size() && g.cfg.sw[g.sw_pos].first == step) {
            int want = g.cfg.sw[g.sw_pos].second;
            g.sw_pos++;
            if (want >= 0 && want < (int) g.tasks.size() && g.tasks[want]->st == T_RUNNABLE) choice = want;
        }
        if (choice < 0) choice = cur_ok ? g.cur : runnable[0];
    } else if (g.cfg.strategy == 1) {
        // PCT: highest priority runnable; at change points demote the running task
        for (size_t i = 0; i < g.pct_points.size(); i++)
            if (g.pct_points[i] == step && g.cur >= 0) g.tasks[g.cur]->prio = -(int64_t) (i + 1);
        int64_t best = INT64_MIN;
        for (int id : runnable) {
            if (id == g.cur && must) continue;
            if (g.tasks[id]->prio > best) { best = g.tasks[id]->prio; choice = id; }
        }
        if (choice < 0) choice = runnable[0];
    } else {
        if (cur_ok && !(site_enabled && g.rng.bern(g.cfg.p_switch))) choice = g.cur;
        else choice = runnable[g.rng.below(runnable.size())];
    }
    if (choice != g.cur) {
        g.res.trace.emplace_back(step, choice);
        g.res.switches++;
        g.shash.u64(step); g.shash.u64((uint64_t) choice);
    }
    if (g.res.steps > g.cfg.max_steps) { g.res.step_limit = true; fatal("step limit exceeded"); }
    return choice;
}

static void transfer(int next) {
    // pass the baton from the running task to `next` and park
    Task *self = tl_task;
    g.cur = next;
    sem_post(&g.tasks[next]->sem);
    while (sem_wait(&self->sem) != 0) {}
}

void sim_yield(int site) {
    Task *self = tl_task;
    if (!self || !g.active) return;
    g.res.yields++;
    if (site >= 0 && site < Y_NSITES) g.site_hits[site]++;
    bool en = (g.cfg.site_mask >> site) & 1u;
    int next = decide(false, en);
    if (next >= 0 && next != self->id) transfer(next);
}

static void block_and_switch() {
    Task *self = tl_task;
    int next = decide(true, true);
    if (next < 0) fatal("deadlock: no runnable task");
    transfer(next);
}

// A task stays a scheduled task until its thread has run its C++ thread_local destructors (the library's per-thread FFT state is
// torn down there: table deletion, plan destruction under the planner mutex).  Those destructors run inside the thread after
// task_main has returned, and POSIX runs pthread-key destructors after them: the key destructor below is therefore the last
// thing the task does - it hands the baton to the hub, which joins the thread.  (Before, the task left the scheduler when its
// function returned; a destructor that locked a mutex held by a parked task then blocked for real and the run hung.  Seen with
// a seeded change that computes shared tables under a lock, once the library's sin/cos calls had become scheduling points.)
static pthread_key_t g_exit_key;
static pthread_once_t g_exit_once = PTHREAD_ONCE_INIT;
static void task_exit_hook(void *arg) {
    Task *t = (Task *) arg;
    t->st = T_FINISHING;
    g.finishing = t->id;
    tl_task = nullptr;
    sem_post(&g.hub);
}
static void make_exit_key() { pthread_key_create(&g_exit_key, task_exit_hook); }
static void *task_main(void *arg) {
    Task *t = (Task *) arg;
    while (sem_wait(&t->sem) != 0) {}
    tl_task = t;
    pthread_once(&g_exit_once, make_exit_key);
    pthread_setspecific(g_exit_key, t);
    t->fn();
    return nullptr;   // thread_local destructors run now, still under the scheduler; task_exit_hook runs after them
}

static int add_task(std::function<void()> fn) {
    std::unique_ptr<Task> t(new Task);
    t->id = (int) g.tasks.size();
    t->fn = std::move(fn);
    sem_init(&t->sem, 0, 0);
    t->st = T_RUNNABLE;
    t->prio = 1000 + (int64_t) g.rng.below(1000000);
    Task *raw = t.get();
    g.tasks.push_back(std::move(t));
    pthread_attr_t at; pthread_attr_init(&at); pthread_attr_setstacksize(&at, 1 << 20);
    if (pthread_create(&raw->th, &at, task_main, raw) != 0) fatal("pthread_create failed");
    pthread_attr_destroy(&at);
    return raw->id;
}

int sched_spawn(std::function<void()> fn) {
    if (!g.active) fatal("spawn outside sched_run");
    return add_task(std::move(fn));
}

void sched_join(int id) {
    Task *self = tl_task;
    if (!self || !g.active) fatal("join outside a task");
    while (g.tasks[id]->st != T_DONE) {
        self->st = T_BLOCKED_JOIN; self->wait_join = id;
        block_and_switch();
    }
}

SchedResult sched_run(const SchedConfig &cfg, std::vector<std::function<void()>> fns) {
    g.cfg = cfg; g.res = SchedResult(); g.shash = Hash(); g.tasks.clear(); g.cur = -1; g.finishing = -1; g.sw_pos = 0;
    g.rng.reseed(mix64(cfg.seed, 0x5c4ed));
    g.mutex_owner.clear();
    g.planner_seen = false; g.planner_common.clear(); g.planner_tasks.clear();
    for (auto &h : g.site_hits) h = 0;
    g.pct_points.clear();
    if (cfg.strategy == 1)
        for (int i = 0; i + 1 < cfg.pct_depth; i++) g.pct_points.push_back(1 + g.rng.below(std::max<uint64_t>(1, cfg.pct_est_steps)));
    sem_init(&g.hub, 0, 0);
    g.active = true;
    for (auto &f : fns) add_task(std::move(f));
    int first = decide(true, true);
    if (first >= 0) { g.cur = first; sem_post(&g.tasks[first]->sem); }
    size_t done = 0;
    while (done < g.tasks.size()) {
        while (sem_wait(&g.hub) != 0) {}
        int f = g.finishing; g.finishing = -1;
        if (f < 0) fatal("hub woken without a finishing task");
        pthread_join(g.tasks[f]->th, nullptr);
        g.tasks[f]->st = T_DONE; done++;
        if (!g.tasks[f]->held.empty()) fatal("task exited holding a mutex");
        for (auto &t : g.tasks) if (t->st == T_BLOCKED_JOIN && t->wait_join == f) { t->st = T_RUNNABLE; t->wait_join = -1; }
        if (done == g.tasks.size()) break;
        g.cur = -1;
        int next = decide(true, true);
        if (next < 0) { g.res.deadlock = true; fatal("deadlock after task exit"); }
        g.cur = next;
        sem_post(&g.tasks[next]->sem);
    }
    g.active = false;
    for (auto &t : g.tasks) sem_destroy(&t->sem);
    sem_destroy(&g.hub);
    g.res.sched_hash = g.shash.get();
    for (int i = 0; i < Y_NSITES; i++) if (g.site_hits[i]) g.res.site_hits[SN[i]] = g.site_hits[i];
    SchedResult r = g.res;
    g.tasks.clear();
    return r;
}

// ---------------------------------------------------------------- mutex model + planner discipline
typedef int (*mutex_fn)(pthread_mutex_t *);
static mutex_fn real_lock, real_unlock;
static void resolve_mutex() {
    if (!real_lock) {
        real_lock = (mutex_fn) dlsym(RTLD_NEXT, "pthread_mutex_lock");
        real_unlock = (mutex_fn) dlsym(RTLD_NEXT, "pthread_mutex_unlock");
    }
}
__attribute__((constructor)) static void sched_ctor() { resolve_mutex(); }

int model_mutex_lock(pthread_mutex_t *m) {
    resolve_mutex();
    Task *self = tl_task;
    if (!self || !g.active) return real_lock(m);
    sim_yield(Y_MUTEX);
    for (;;) {
        auto it = g.mutex_owner.find(m);
        if (it == g.mutex_owner.end()) break;
        if (it->second == self->id) break;   // recursive/our own: let the real one decide
        self->st = T_BLOCKED_MUTEX; self->wait_mutex = m;
        block_and_switch();
    }
    g.mutex_owner[m] = self->id;
    self->held.insert(m);
    return real_lock(m);
}
int model_mutex_unlock(pthread_mutex_t *m) {
    resolve_mutex();
    Task *self = tl_task;
    if (!self || !g.active) return real_unlock(m);
    int rc = real_unlock(m);
    g.mutex_owner.erase(m);
    self->held.erase(m);
    for (auto &t : g.tasks) if (t->st == T_BLOCKED_MUTEX && t->wait_mutex == m) { t->st = T_RUNNABLE; t->wait_mutex = nullptr; }
    sim_yield(Y_MUTEX);
    return rc;
}

// called by the planner interposers
void planner_enter(const char *what) {
    Task *self = tl_task;
    if (!self || !g.active) return;
    g.res.planner_calls++;
    if (!g.planner_seen) { g.planner_seen = true; g.planner_common = self->held; }
    else {
        std::set<void *> inter;
        for (void *m : g.planner_common) if (self->held.count(m)) inter.insert(m);
        g.planner_common = inter;
    }
    g.planner_tasks.insert(self->id);
    if (g.planner_tasks.size() >= 2 && g.planner_common.empty() && g.res.planner_violation.empty())
        g.res.planner_violation = std::string("FFTW planner entered (") + what + ") by task " + std::to_string(self->id) +
                                  " without a mutex common to all planner callers";
    sim_yield(Y_PLANNER);
}

} // namespace sim

#if !defined(__SANITIZE_THREAD__)
extern "C" int pthread_mutex_lock(pthread_mutex_t *m) { return sim::model_mutex_lock(m); }
extern "C" int pthread_mutex_unlock(pthread_mutex_t *m) { return sim::model_mutex_unlock(m); }
#endif
