// Environment shared by all scenarios: parameter specs, key contexts (cached per
// worker), the omniscient observer's independent arithmetic.
#pragma once
#include "core.h"
#include <tfhe.h>
#include <tfhe_io.h>
#include <tfhe_garbage_collector.h>
#include <memory>

namespace sim {

// ------------------------------------------------------------ parameter specs
struct ParamSpec {
    std::string name;     // "P128", "P80" or "S"
    int n = 16, N = 1024, k = 1, l = 2, Bgbit = 10, t = 8, basebit = 2;
    double a_ks = 0, a_bk = 0, a_max = 0.012467;
    std::string str() const;                // canonical text (cache key)
    static ParamSpec parse(const std::string &s);
    static ParamSpec P128();
    static ParamSpec P80();
    // textbook worst-case standard deviations (used only to accept swarm sets and to
    // scale 8-sigma acceptance regions on them; default sets use the stated bounds)
    double sd_br() const;                   // blind rotation (bootstrap without key switch) noise sd, upper estimate
    double sd_ks() const;                   // key switch noise sd, upper estimate
    double sd_gate_out() const;             // bootstrap + key switch output noise sd (upper estimate)
    double sd_modswitch() const;            // rounding noise of the modulus switch
    bool acceptable() const;                // >= 12 sigma everywhere
};
ParamSpec draw_swarm_spec(Rng &r, int max_n = 64);

// ------------------------------------------------------------ key context
struct KeyCtx {
    ParamSpec spec;
    uint64_t kseed = 0;
    TFheGateBootstrappingParameterSet *params = nullptr;
    TFheGateBootstrappingSecretKeySet *sk = nullptr;
    const TFheGateBootstrappingCloudKeySet *ck = nullptr;  // &sk->cloud
    // observer copies of the secrets (independent of library accessors after construction)
    std::vector<int32_t> s;        // LWE key, n
    std::vector<int32_t> S;        // ring key, k*N (extracted key order)
    int n, N, k, l, Bgbit, t, basebit, base, kpl;
    // actual noise of every key-switching row (i, j, h) -> index ((i*t)+j)*base+h ; h=0 rows: must be trivial zero
    std::vector<int32_t> ks_noise;
    bool ks_noise_ready = false;
    // actual noise polynomials of every bootstrapping row: [i][p] -> N coefficients
    std::vector<int32_t> bk_noise; // n * kpl * N
    bool bk_noise_ready = false;
    uint64_t cloud_hash = 0;       // hash over all key material reachable from ck (coefficient + FFT domain)
    ~KeyCtx();
    void compute_ks_noise();
    void compute_bk_noise();
};

// seeds the library generator (the only randomness the library has)
void lib_seed(uint64_t seed);
// Runs fn(arg) in a short-lived thread and returns once that thread has exited completely (thread_local destructors
// included).  The thread is created DETACHED and its exit is awaited through its kernel task id, not by pthread_join:
// the sanitizer runtime of this image (gcc 12 libasan) keeps the registry entry of a joined thread in state "finished"
// with its old kernel tid for ever; pid_max is 32768 here, so after a few minutes of a loaded batch the kernel hands the
// same tid to a new thread, LeakSanitizer looks the live thread up by tid, finds the stale entry first, skips the live
// thread's stack and TLS and reports everything referenced only from there as leaked (seen as irreproducible C16.leak
// reports whose stacks included the scenario's own live locals).  Entries of detached threads are retired and never matched.
void run_in_thread(void *(*fn)(void *), void *arg, size_t stack = 8u << 20);
// builds a parameter set from a spec (default sets through the library's own selector)
TFheGateBootstrappingParameterSet *make_params(const ParamSpec &sp);
// cached per worker; generated deterministically from (spec, kseed)
KeyCtx *get_key(const ParamSpec &sp, uint64_t kseed);
void drop_keys();
void begin_run();   // start of a run: keys handed out from now on are pinned in the cache until the next run

// ------------------------------------------------------------ observer arithmetic (independent of the library)
namespace obs {
uint32_t lwe_phase(const LweSample *c, const int32_t *key, int n);
// rounded phase in Z_2N by the observer's own rounding; ties reported
int modswitch(uint32_t x, int twoN, bool *tie);
// p-hat = round(2N b) - sum round(2N a_i) s_i  mod 2N ; amb = a tie occurred somewhere with s_i = 1 (or on b)
int rounded_phase(const LweSample *c, const int32_t *key, int n, int twoN, bool *amb);
// TLWE phase: b - sum_u a_u * S_u (negacyclic, key binary or small)
void tlwe_phase(std::vector<uint32_t> &out, const TLweSample *c, const int32_t *S, int N, int k);
// single coefficient of the negacyclic product (int poly m) * (torus poly p)
uint32_t negacyclic_coef(const int32_t *m, const uint32_t *p, int N, int j);
// key-switch rounding of one mask coefficient to t*basebit bits, round to nearest (ties up)
uint32_t ks_round(uint32_t a, int t, int basebit);
uint64_t hash_lwe(const LweSample *c, int n);
uint64_t hash_tlwe(const TLweSample *c, int N, int k);
uint64_t hash_cloud(const TFheGateBootstrappingCloudKeySet *ck);
uint64_t hash_ks(const LweKeySwitchKey *ks);
uint64_t hash_params(const TFheGateBootstrappingParameterSet *p);
uint64_t hash_generator();
}

// torus helpers
static inline double t2d(int32_t x) { return (double) x / 4294967296.0; }
static const int32_t T_1s8 = 1 << 29;   // 1/8
static const int32_t T_1s32 = 1 << 27;  // 1/32

// ------------------------------------------------------------ gates
enum Gate { G_NAND, G_AND, G_OR, G_XOR, G_XNOR, G_NOR, G_ANDNY, G_ANDYN, G_ORNY, G_ORYN, G_MUX, G_NOT, G_COPY, G_CONSTANT, G_COUNT };
const char *gate_name(int g);
int gate_by_name(const std::string &s);
int gate_arity(int g);
int gate_truth(int g, int a, int b, int c);
void gate_apply(int g, LweSample *res, const LweSample *a, const LweSample *b, const LweSample *c, int cst,
                const TFheGateBootstrappingCloudKeySet *ck);
// affine combination the gate is specified to form before its (first) bootstrap:
// x = cst + ca*phi(a) + cb*phi(b) (+ cc*phi(c)); for MUX two combinations.
struct GateAffine { int32_t cst; int ca, cb, cc; };
int gate_affines(int g, GateAffine out[2]);

} // namespace sim
