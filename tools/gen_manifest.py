#!/usr/bin/env python3
"""Writes /verif/MANIFEST.json from the recipe registry (single source of truth)."""
import json, os, sys
HERE = os.path.dirname(os.path.abspath(__file__))
sys.path.insert(0, HERE)
import recipes
VERIF = os.path.dirname(HERE)

NA = {
    "C10": "pure numeric function of its arguments per back-end (FFT product accuracy): no schedule, clock, stream, fault or interleaving in it; deciding it is input enumeration, not simulation. Its seam-touching parts are decided under C06 (per-thread FFT state, stale scratch) and C16 (memory safety).",
    "C11": "pure ring arithmetic (naive/Karatsuba/monomial products): deterministic function of explicit arguments, nothing a simulator can own.",
    "C12": "pure function of one torus value and (l,Bgbit); the only seam-touching clause (input polynomial unchanged after the call) is decided under C15.",
    "C13": "pure integer rounding functions; exhaustive 2^32 sweeps are model checking / enumeration, not simulation.",
    "C14": "pure linear maps on coefficient arrays; memory safety of the vector tails for n < 8 is decided under C16, gate-level use under C01.",
    "C19": "pure function of one integer and compile-time constants; its abort on bad input is not a fault surface.",
    "C20": "static ABI / symbol surface of build artefacts: nothing to schedule, inject or replay.",
}
PENDING = "claimed in DESIGN.md but the check is still under construction in this tree; not claimed until its quick command exists and is clean"

def main():
    props = [json.loads(l) for l in open(os.path.join(VERIF, "properties.jsonl"))]
    checks, na = [], []
    for p in props:
        pid = p["id"]
        if pid in recipes.RECIPES:
            r = recipes.RECIPES[pid]
            checks.append({
                "property_id": pid,
                "quick_cmd": "python3 tools/check.py %s --tier quick" % pid,
                "thorough_cmd": "python3 tools/check.py %s --tier thorough" % pid,
                "evidence_file": "evidence/%s.json" % pid,
                "replay_cmd_template": "python3 tools/check.py replay {path}",
                "engine": "dsim",
                "level_claimed": {"category": r["level"], "text": r["level_text"], "design_ref": r.get("design_ref", "DESIGN.md section 5, " + pid)},
                "level_note": r["level_note"],
                "technique": r["technique"],
            })
        elif pid in NA:
            na.append({"property_id": pid, "reason": NA[pid]})
        else:
            na.append({"property_id": pid, "reason": PENDING})
    m = {
        "version": 1,
        "setup_cmd": "python3 tools/build.py optim debug optim-asan debug-asan optim-tsan hsw",
        "hooks": {
            "guard": "TFHE_VERIF_SIM",
            "enable": "every library build made by tools/build.py passes -DTFHE_VERIF_SIM through CMAKE_C(XX)_FLAGS; no source line in /repo depends on it today: all seams are ELF symbol interposition from the simulator executable (DESIGN.md 3.1)",
            "baseline_off_cmd": "tools/baseline_off.sh /repo",
            "source_commits": [],
            "add_only": True,
        },
        "engines": [{"name": "dsim", "path": "sim/", "serves_properties": sorted(recipes.RECIPES.keys()),
                     "kind_free_text": "deterministic simulation with fault injection: seeded plans (decision lists), serialising scheduler over real pthreads, simulated store/wire over fopencookie and streambuf, omniscient observer, ELF-interposed seams; driver tools/check.py"}],
        "checks": checks,
        "not_applicable": na,
        "notes": "All checks rebuild the five back-end libraries from /repo/src with the repo's own CMake (cached by tree hash under /verif/.cache). VERIF_SEED and VERIF_TIER are honoured. Known findings: known_findings.txt.",
    }
    json.dump(m, open(os.path.join(VERIF, "MANIFEST.json"), "w"), indent=1)
    print("MANIFEST.json: %d checks, %d not applicable" % (len(checks), len(na)))

if __name__ == "__main__":
    main()
