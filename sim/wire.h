// Simulated store / wire (DESIGN.md 3.4): both public transports (FILE*, iostream)
// over an in-memory byte store owned by the simulator, with seeded chunking and faults.
#pragma once
#include "core.h"
#include "env.h"
#include <cstdio>
#include <iostream>
#include <streambuf>

namespace sim {

struct WireCfg {
    int transport = 0;        // 0 = C FILE*, 1 = C++ stream
    // writer side (F-chunk): how the library's output is split into write calls
    int wmode = 0;            // FILE*: 0 fully buffered(wbuf) 1 unbuffered 2 line buffered ; stream: buffer of wbuf bytes (0 = unbuffered)
    size_t wbuf = 4096;
    // reader side (F-short): a read delivers at most rmax bytes (seeded 1..rmax when rrand), 0 = as much as asked
    size_t rmax = 0;
    bool rrand = false;
    uint64_t cseed = 1;
    size_t rbuf = 4096;       // FILE*: setvbuf size for the reader (0 = unbuffered); stream: get-area size
    // faults
    int64_t trunc_at = -1;    // F-trunc: store holds only the first trunc_at bytes
    int64_t eio_at = -1;      // F-eio: read returns -1 once the offset is reached (FILE* only)
    std::string str() const;
};
WireCfg draw_wire(Rng &r, int transport = -1);

struct WriteLog {
    std::string bytes;                 // everything written
    std::vector<uint32_t> calls;       // size of every write call reaching the store
};

// ---- writers
FILE *open_file_writer(WriteLog *log, const WireCfg &c);
struct StoreOutBuf : std::streambuf {
    WriteLog *log; std::vector<char> buf; size_t cap;
    StoreOutBuf(WriteLog *l, size_t cap);
    ~StoreOutBuf();
    int_type overflow(int_type ch) override;
    std::streamsize xsputn(const char *s, std::streamsize n) override;
    int sync() override;
    void flush_buf();
};
// ---- readers
struct ReadState {
    const std::string *data; size_t pos = 0; WireCfg c; Rng rng; uint64_t reads = 0, short_reads = 0; bool hit_trunc = false, hit_eio = false;
    size_t limit() const { return c.trunc_at >= 0 && (size_t) c.trunc_at < data->size() ? (size_t) c.trunc_at : data->size(); }
    size_t next_chunk(size_t want);
};
FILE *open_file_reader(ReadState *st);
struct StoreInBuf : std::streambuf {
    ReadState *st; std::vector<char> buf;
    explicit StoreInBuf(ReadState *s);
    int_type underflow() override;
    // position in the store of the next byte the stream would deliver
    size_t consumed() const { return st->pos - (size_t) (egptr() - gptr()); }
};

// ------------------------------------------------------------ object codec (14 exportable types + gate ciphertext alias)
enum ObjKind { K_LWEPARAMS, K_LWESAMPLE, K_LWEKEY, K_TLWEPARAMS, K_TLWESAMPLE, K_TLWEKEY, K_TGSWPARAMS, K_TGSWSAMPLE, K_TGSWKEY,
               K_KSKEY, K_BKKEY, K_GBPARAMS, K_CLOUDKEY, K_SECRETKEY, K_GATECT, K_NKINDS };
const char *kind_name(int k);
int kind_by_name(const std::string &s);

struct Obj {
    int kind = -1;
    void *p = nullptr;
    // parameter context for the sample kinds (not owned)
    const LweParams *lwep = nullptr;
    const TLweParams *tlwep = nullptr;
    const TGswParams *tgswp = nullptr;
    const TFheGateBootstrappingParameterSet *gbp = nullptr;
    bool owned = true;
};
void obj_export_file(const Obj &o, FILE *f);
void obj_export_stream(const Obj &o, std::ostream &os);
// import: sample kinds need ctx (params taken from `like`); returns a new owned object
Obj obj_import_file(const Obj &like, FILE *f);
Obj obj_import_stream(const Obj &like, std::istream &is);
void obj_free(Obj &o);
// deep field-for-field equality, doubles bit-for-bit; key material variance: common maximum (as the property states)
bool obj_equal(const Obj &a, const Obj &b, std::string *why);
// whether the object is completely and correctly filled compared with the original (same as equal)
uint64_t obj_hash(const Obj &o);

// convenience: export through a wire config into bytes (records write calls)
void export_via(const Obj &o, const WireCfg &c, WriteLog *log);
// import from bytes through a wire config; *consumed = store offset after the import; fail = C++ stream fail state
Obj import_via(const Obj &like, const std::string &bytes, const WireCfg &c, size_t *consumed, bool *stream_failed, ReadState *rs_out = nullptr);

} // namespace sim
