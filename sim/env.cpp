#include "env.h"
#include <cmath>
#include <algorithm>
#include <random>
#include <numeric_functions.h>
#include <pthread.h>
#include <semaphore.h>
#include <signal.h>
#include <unistd.h>
#include <sys/syscall.h>
#include <time.h>
#include <errno.h>

namespace sim {

// ------------------------------------------------------------ ParamSpec
std::string ParamSpec::str() const {
    char b[256];
    snprintf(b, sizeof b, "%s:n%d:N%d:k%d:l%d:B%d:t%d:b%d:aks%.17g:abk%.17g:amax%.17g", name.c_str(), n, N, k, l, Bgbit, t,
             basebit, a_ks, a_bk, a_max);
    return b;
}
ParamSpec ParamSpec::parse(const std::string &s) {
    ParamSpec p;
    char nm[32] = {0};
    if (sscanf(s.c_str(), "%31[^:]:n%d:N%d:k%d:l%d:B%d:t%d:b%d:aks%lg:abk%lg:amax%lg", nm, &p.n, &p.N, &p.k, &p.l, &p.Bgbit,
               &p.t, &p.basebit, &p.a_ks, &p.a_bk, &p.a_max) != 11) {
        fprintf(stderr, "bad spec %s\n", s.c_str());
        exit(2);
    }
    p.name = nm;
    return p;
}
ParamSpec ParamSpec::P128() {
    ParamSpec p; p.name = "P128"; p.n = 630; p.N = 1024; p.k = 1; p.l = 3; p.Bgbit = 7; p.t = 8; p.basebit = 2;
    p.a_ks = pow(2., -15); p.a_bk = pow(2., -25); p.a_max = 0.012467; return p;
}
ParamSpec ParamSpec::P80() {
    ParamSpec p; p.name = "P80"; p.n = 500; p.N = 1024; p.k = 1; p.l = 2; p.Bgbit = 10; p.t = 8; p.basebit = 2;
    p.a_ks = 2.44e-5; p.a_bk = 7.18e-9; p.a_max = 0.012467; return p;
}
double ParamSpec::sd_modswitch() const {
    // each rounded coefficient contributes uniform error of width 1/2N, key bits 0/1 (at most n set) + b
    return sqrt((n + 1) / 12.0) / (2.0 * N);
}
double ParamSpec::sd_br() const {
    // blind rotation (n CMux steps), upper estimate:
    //  * row noise: (k+1) l N (Bg/2)^2 (a_bk^2 + floor^2); floor = 2 units of 2^-32: every generated row carries the rounding
    //    error of the FFT product used by the TLWE encryption even when a_bk = 0
    //  * gadget truncation: the decomposition truncates (error in [0, 2^-(l Bgbit)) per coefficient, not centred), so the phase
    //    error of one step has a coefficient-dependent mean of up to (1 + hw(S)) * unit/2; after the following rotations the
    //    coefficient that is finally extracted is an arbitrary one: variance ((1 + 0.6 k N) unit/2)^2 / 3 per step
    double Bg = (double) (1 << Bgbit);
    double unit = pow(2., -(double) l * Bgbit);
    double fl = 2.0 / 4294967296.0;
    double v_rows = (k + 1.0) * l * N * (Bg / 2) * (Bg / 2) * (a_bk * a_bk + fl * fl);
    double m = (1.0 + 0.6 * k * N) * unit / 2;
    double v_trunc = m * m / 3.0 + (1.0 + k * N) * unit * unit / 12.0;
    double v_fft = (k + 1.0) * l * 16.0 * fl * fl;
    return sqrt(n * (v_rows + v_trunc + v_fft));
}
double ParamSpec::sd_ks() const {
    double prec = pow(2., -(t * basebit + 1));
    double v_ks = (double) k * N * t * a_ks * a_ks + (double) k * N * prec * prec / 3.0;
    return sqrt(v_ks);
}
double ParamSpec::sd_gate_out() const {
    double a = sd_br(), b = sd_ks();
    return sqrt(a * a + b * b);
}
bool ParamSpec::acceptable() const {
    if (l * Bgbit > 32 || t * basebit > 31 || N != 1024 || n < 1 || k < 1) return false;
    // outputs must stay within 1/32 of +-1/8 (so they are valid inputs again), MUX = two bootstraps
    if (12.0 * sd_gate_out() * sqrt(2.0) > 1.0 / 32) return false;
    // worst admissible inputs leave 1/16 before the decision boundary of the sign bootstrap
    if (12.0 * sd_modswitch() > 1.0 / 16) return false;
    return true;
}
ParamSpec draw_swarm_spec(Rng &r, int max_n) {
    static const int ns[] = {1, 2, 3, 5, 7, 8, 9, 12, 15, 16, 17, 24, 31, 32, 33, 48, 64, 100, 500, 630, 1024, 1025, 1100};
    for (int attempt = 0; attempt < 1000; attempt++) {
        ParamSpec p; p.name = "S"; p.N = 1024;
        do { p.n = r.bern(0.7) ? ns[r.below(sizeof ns / sizeof *ns)] : (int) r.range(1, std::max(1, max_n)); } while (p.n > max_n);
        p.k = r.bern(0.3) ? 2 : 1;
        // Bgbit <= 10 (as in the default sets): larger digits leave the accuracy range of the double-precision FFT (C10)
        static const int lB[][2] = {{2, 10}, {3, 7}, {3, 10}, {4, 8}, {4, 7}, {6, 5}, {5, 6}, {8, 4}, {3, 9}, {4, 6}, {16, 2}, {10, 3}, {3, 8}};
        int i = (int) r.below(sizeof lB / sizeof *lB);
        p.l = lB[i][0]; p.Bgbit = lB[i][1];
        static const int tb[][2] = {{8, 2}, {16, 1}, {4, 4}, {5, 3}, {15, 2}, {3, 5}, {2, 8}, {10, 3}, {6, 2}, {7, 4}, {31, 1}, {4, 3}, {3, 6}};
        i = (int) r.below(sizeof tb / sizeof *tb);
        p.t = tb[i][0]; p.basebit = tb[i][1];
        // memory cap on the key-switching key: kN * t * base * (n+1) * 4 bytes
        double ksbytes = (double) p.k * p.N * p.t * (1 << p.basebit) * (p.n + 1) * 4.0;
        if (ksbytes > 96e6) continue;
        static const double aks[] = {0, 1e-9, 3.0517578125e-05, 2.44e-5, 1e-6, 1e-7};
        static const double abk[] = {0, 2.98023223876953125e-08, 7.18e-9, 1e-9, 1e-10};
        p.a_ks = aks[r.below(6)]; p.a_bk = abk[r.below(5)];
        p.a_max = 0.012467;
        if (p.acceptable()) return p;
    }
    ParamSpec p; p.name = "S"; p.n = 16; p.k = 1; p.l = 2; p.Bgbit = 10; p.t = 8; p.basebit = 2; p.a_ks = 1e-6; p.a_bk = 1e-9;
    return p;
}

// ------------------------------------------------------------ library glue
void lib_seed(uint64_t seed) {
    uint32_t v[4] = {(uint32_t) seed, (uint32_t) (seed >> 32), 0x5eed5eedu, (uint32_t) (seed * 0x9E3779B97F4A7C15ull >> 32)};
    tfhe_random_generator_setSeed(v, 4);
}

TFheGateBootstrappingParameterSet *make_params(const ParamSpec &sp) {
    if (sp.name == "P128") return new_default_gate_bootstrapping_parameters(128);
    if (sp.name == "P80") return new_default_gate_bootstrapping_parameters(80);
    LweParams *in = new_LweParams(sp.n, sp.a_ks, sp.a_max);
    TLweParams *acc = new_TLweParams(sp.N, sp.k, sp.a_bk, sp.a_max);
    TGswParams *bk = new_TGswParams(sp.l, sp.Bgbit, acc);
    TfheGarbageCollector::register_param(in);
    TfheGarbageCollector::register_param(acc);
    TfheGarbageCollector::register_param(bk);
    return new TFheGateBootstrappingParameterSet(sp.t, sp.basebit, in, bk);
}

static std::map<std::string, std::unique_ptr<KeyCtx>> g_keys;
static std::vector<std::string> g_key_order;
static size_t g_key_bytes = 0;

KeyCtx::~KeyCtx() {
    if (sk) delete_gate_bootstrapping_secret_keyset(sk);
    if (params) delete_gate_bootstrapping_parameters(params);
}

static size_t key_bytes(const ParamSpec &sp) {
    return (size_t) sp.k * sp.N * sp.t * (1 << sp.basebit) * (sp.n + 1) * 4 * 2 + (size_t) sp.n * (sp.k + 1) * sp.l * (sp.k + 1) * sp.N * 12;
}

// keys handed out during the current run are pinned: a run that needs two large keys (the cloud-key scenario's "secret material of
// another key" histories with a default-size set) used to evict - and free - the first one while it was still in use; seen as a
// null dereference in the export of a cloud key that only occurred after three earlier runs had filled the cache (thorough
// C17, reported by the process-history replay of worker deaths).
static uint64_t g_run_epoch = 1;
static std::map<std::string, uint64_t> g_key_epoch;
void begin_run() { g_run_epoch++; }
KeyCtx *get_key(const ParamSpec &sp, uint64_t kseed) {
    std::string id = sp.str() + "#" + std::to_string(kseed);
    auto it = g_keys.find(id);
    if (it != g_keys.end()) { g_key_epoch[id] = g_run_epoch; return it->second.get(); }
    // evict (oldest first, never a key of the current run) to stay under ~0.9 GB per worker
    for (size_t q = 0; q < g_key_order.size() && g_key_bytes + key_bytes(sp) > (size_t) 900e6;) {
        std::string old = g_key_order[q];
        if (g_key_epoch[old] == g_run_epoch) { q++; continue; }
        g_key_order.erase(g_key_order.begin() + (long) q);
        g_key_epoch.erase(old);
        auto o = g_keys.find(old);
        if (o != g_keys.end()) { g_key_bytes -= key_bytes(o->second->spec); g_keys.erase(o); }
    }
    std::unique_ptr<KeyCtx> kc(new KeyCtx);
    kc->spec = sp; kc->kseed = kseed;
    kc->params = make_params(sp);
    // key generation must leave the library generator exactly as it found it: whether a key comes from this worker's cache or is
    // generated now must not influence anything a run draws afterwards (runs are distributed over workers arbitrarily)
    std::default_random_engine saved = generator;
    lib_seed(mix64(kseed, 0x6b657967656eull));
    kc->sk = new_random_gate_bootstrapping_secret_keyset(kc->params);
    generator = saved;
    kc->ck = &kc->sk->cloud;
    const TFheGateBootstrappingParameterSet *P = kc->params;
    kc->n = P->in_out_params->n; kc->N = P->tgsw_params->tlwe_params->N; kc->k = P->tgsw_params->tlwe_params->k;
    kc->l = P->tgsw_params->l; kc->Bgbit = P->tgsw_params->Bgbit; kc->t = P->ks_t; kc->basebit = P->ks_basebit;
    kc->base = 1 << kc->basebit; kc->kpl = (kc->k + 1) * kc->l;
    kc->s.assign(kc->sk->lwe_key->key, kc->sk->lwe_key->key + kc->n);
    kc->S.resize((size_t) kc->k * kc->N);
    for (int u = 0; u < kc->k; u++)
        for (int j = 0; j < kc->N; j++) kc->S[(size_t) u * kc->N + j] = kc->sk->tgsw_key->key[u].coefs[j];
    kc->cloud_hash = obs::hash_cloud(kc->ck);
    KeyCtx *r = kc.get();
    g_keys[id] = std::move(kc);
    g_key_epoch[id] = g_run_epoch;
    g_key_order.push_back(id);
    g_key_bytes += key_bytes(sp);
    return r;
}
void drop_keys() { g_keys.clear(); g_key_order.clear(); g_key_epoch.clear(); g_key_bytes = 0; }

void KeyCtx::compute_ks_noise() {
    if (ks_noise_ready) return;
    const LweKeySwitchKey *ks = ck->bkFFT->ks;
    int nin = k * N;
    ks_noise.assign((size_t) nin * t * base, 0);
    if (ks->t != t || ks->base != base) { ks_noise_ready = true; return; }
    for (int i = 0; i < nin && i < ks->n; i++)
        for (int j = 0; j < t; j++)
            for (int h = 0; h < base; h++) {
                uint32_t ph = obs::lwe_phase(&ks->ks[i][j][h], s.data(), n);
                int sh = 32 - (j + 1) * basebit;
                uint32_t msg = sh >= 0 ? ((uint32_t) (S[i] * h)) << sh : 0;
                ks_noise[((size_t) i * t + j) * base + h] = (int32_t) (ph - msg);
            }
    ks_noise_ready = true;
}

void KeyCtx::compute_bk_noise() {
    if (bk_noise_ready) return;
    const LweBootstrappingKey *bk = ck->bk;
    bk_noise.assign((size_t) n * kpl * N, 0);
    std::vector<uint32_t> ph;
    for (int i = 0; i < n; i++)
        for (int p = 0; p < kpl; p++) {
            const TLweSample *row = &bk->bk[i].all_sample[p];
            obs::tlwe_phase(ph, row, S.data(), N, k);
            // message: s_i * h_j on block u: phase contribution  -s_i h_j S_u (u<k)  or + s_i h_j at coefficient 0 (u=k)
            int u = p / l, j = p % l;
            uint32_t hj = 1u << (32 - (j + 1) * Bgbit);
            int32_t *out = &bk_noise[((size_t) i * kpl + p) * N];
            for (int c = 0; c < N; c++) {
                uint32_t msg;
                if (u < k) msg = (uint32_t) (-(int64_t) s[i] * (int64_t) S[(size_t) u * N + c]) * hj;
                else msg = (c == 0) ? (uint32_t) s[i] * hj : 0;
                out[c] = (int32_t) (ph[c] - msg);
            }
        }
    bk_noise_ready = true;
}

// ------------------------------------------------------------ observer
namespace obs {
uint32_t lwe_phase(const LweSample *c, const int32_t *key, int n) {
    uint32_t acc = 0;
    for (int i = 0; i < n; i++) acc += (uint32_t) c->a[i] * (uint32_t) key[i];
    return (uint32_t) c->b - acc;
}
int modswitch(uint32_t x, int twoN, bool *tie) {
    // nearest integer to twoN * x / 2^32, by exact 128-bit integer arithmetic; exact half -> tie
    unsigned __int128 num = (unsigned __int128) x * (unsigned) twoN;   // scaled by 2^32
    uint64_t q = (uint64_t) (num >> 32);
    uint64_t rem = (uint64_t) (num & 0xffffffffu);
    if (rem == 0x80000000u) { if (tie) *tie = true; q += 1; }
    else if (rem > 0x80000000u) q += 1;
    return (int) (q % (unsigned) twoN);
}
int rounded_phase(const LweSample *c, const int32_t *key, int n, int twoN, bool *amb) {
    bool tie = false;
    int64_t p = modswitch((uint32_t) c->b, twoN, &tie);
    for (int i = 0; i < n; i++) {
        bool t2 = false;
        int r = modswitch((uint32_t) c->a[i], twoN, &t2);
        if (key[i]) { p -= (int64_t) r * key[i]; if (t2) tie = true; }
    }
    if (amb) *amb = tie;
    p %= twoN; if (p < 0) p += twoN;
    return (int) p;
}
void tlwe_phase(std::vector<uint32_t> &out, const TLweSample *c, const int32_t *S, int N, int k) {
    out.assign(N, 0);
    for (int j = 0; j < N; j++) out[j] = (uint32_t) c->a[k].coefsT[j];
    for (int u = 0; u < k; u++) {
        const int32_t *key = S + (size_t) u * N;
        const int32_t *a = c->a[u].coefsT;
        for (int i = 0; i < N; i++) {
            int32_t ki = key[i];
            if (!ki) continue;
            // subtract ki * X^i * a
            for (int j = 0; j < N - i; j++) out[i + j] -= (uint32_t) ki * (uint32_t) a[j];
            for (int j = N - i; j < N; j++) out[i + j - N] += (uint32_t) ki * (uint32_t) a[j];
        }
    }
}
uint32_t negacyclic_coef(const int32_t *m, const uint32_t *p, int N, int j) {
    uint32_t acc = 0;
    for (int i = 0; i <= j; i++) acc += (uint32_t) m[i] * p[j - i];
    for (int i = j + 1; i < N; i++) acc -= (uint32_t) m[i] * p[N + j - i];
    return acc;
}
uint32_t ks_round(uint32_t a, int t, int basebit) {
    int keep = t * basebit;            // <= 31
    uint32_t unit = 1u << (32 - keep); // value of the last kept bit
    uint32_t half = unit >> 1;
    uint64_t v = (uint64_t) a + half;  // ties go up
    v &= ~((uint64_t) unit - 1);
    return (uint32_t) v;               // wraps at 2^32
}
uint64_t hash_lwe(const LweSample *c, int n) {
    Hash h; h.bytes(c->a, (size_t) n * 4); h.bytes(&c->b, 4); h.bytes(&c->current_variance, 8); return h.get();
}
uint64_t hash_tlwe(const TLweSample *c, int N, int k) {
    Hash h; for (int u = 0; u <= k; u++) h.bytes(c->a[u].coefsT, (size_t) N * 4); h.bytes(&c->current_variance, 8); return h.get();
}
uint64_t hash_ks(const LweKeySwitchKey *ks) {
    Hash h; int n = ks->out_params->n;
    h.u64(ks->n); h.u64(ks->t); h.u64(ks->basebit); h.u64(ks->base);
    for (int i = 0; i < ks->n * ks->t * ks->base; i++) {
        const LweSample *c = &ks->ks0_raw[i];
        h.bytes(c->a, (size_t) n * 4); h.bytes(&c->b, 4); h.bytes(&c->current_variance, 8);
    }
    return h.get();
}
uint64_t hash_params(const TFheGateBootstrappingParameterSet *p) {
    Hash h;
    h.u64(p->ks_t); h.u64(p->ks_basebit);
    h.u64(p->in_out_params->n); h.bytes(&p->in_out_params->alpha_min, 8); h.bytes(&p->in_out_params->alpha_max, 8);
    const TGswParams *g = p->tgsw_params;
    h.u64(g->l); h.u64(g->Bgbit); h.u64(g->Bg); h.u64(g->halfBg); h.u64(g->maskMod); h.u64(g->kpl); h.u64(g->offset);
    h.bytes(g->h, (size_t) g->l * 4);
    const TLweParams *tl = g->tlwe_params;
    h.u64(tl->N); h.u64(tl->k); h.bytes(&tl->alpha_min, 8); h.bytes(&tl->alpha_max, 8);
    h.u64(tl->extracted_lweparams.n); h.bytes(&tl->extracted_lweparams.alpha_min, 8); h.bytes(&tl->extracted_lweparams.alpha_max, 8);
    return h.get();
}
// layout shared by the three LagrangeHalfCPolynomial_IMPL variants: first member is the coefficient array
// (N doubles for spqlios, N/2 complex<double> for nayuki/fftw): N*8 bytes in all cases.
struct LagrangeImplView { double *coefs; void *proc; };
uint64_t hash_cloud(const TFheGateBootstrappingCloudKeySet *ck) {
    Hash h;
    h.u64(hash_params(ck->params));
    const LweBootstrappingKey *bk = ck->bk;
    int n = bk->in_out_params->n, N = bk->bk_params->tlwe_params->N, k = bk->bk_params->tlwe_params->k, kpl = bk->bk_params->kpl;
    for (int i = 0; i < n; i++)
        for (int p = 0; p < kpl; p++) h.u64(hash_tlwe(&bk->bk[i].all_sample[p], N, k));
    h.u64(hash_ks(bk->ks));
    const LweBootstrappingKeyFFT *f = ck->bkFFT;
    if (f) {
        h.u64(hash_ks(f->ks));
        for (int i = 0; i < n; i++)
            for (int p = 0; p < kpl; p++) {
                const TLweSampleFFT *row = &f->bkFFT[i].all_samples[p];
                for (int u = 0; u <= k; u++) {
                    const LagrangeImplView *lv = (const LagrangeImplView *) &row->a[u];
                    h.bytes(lv->coefs, (size_t) N * 8);
                }
                h.bytes(&row->current_variance, 8);
            }
    }
    return h.get();
}
uint64_t hash_generator() {
    std::ostringstream os; os << generator;
    Hash h; h.str(os.str()); return h.get();
}
} // namespace obs

// ------------------------------------------------------------ gates
static const char *GN[G_COUNT] = {"NAND", "AND", "OR", "XOR", "XNOR", "NOR", "ANDNY", "ANDYN", "ORNY", "ORYN", "MUX", "NOT", "COPY", "CONSTANT"};
const char *gate_name(int g) { return (g >= 0 && g < G_COUNT) ? GN[g] : "?"; }
int gate_by_name(const std::string &s) { for (int g = 0; g < G_COUNT; g++) if (s == GN[g]) return g; return -1; }
int gate_arity(int g) { return g == G_MUX ? 3 : (g == G_NOT || g == G_COPY) ? 1 : g == G_CONSTANT ? 0 : 2; }
int gate_truth(int g, int a, int b, int c) {
    switch (g) {
        case G_NAND: return !(a && b);
        case G_AND: return a && b;
        case G_OR: return a || b;
        case G_XOR: return a ^ b;
        case G_XNOR: return !(a ^ b);
        case G_NOR: return !(a || b);
        case G_ANDNY: return (!a) && b;
        case G_ANDYN: return a && (!b);
        case G_ORNY: return (!a) || b;
        case G_ORYN: return a || (!b);
        case G_MUX: return a ? b : c;
        case G_NOT: return !a;
        case G_COPY: return a;
        case G_CONSTANT: return c ? 1 : 0;   // value passed through c
    }
    return 0;
}
void gate_apply(int g, LweSample *res, const LweSample *a, const LweSample *b, const LweSample *c, int cst,
                const TFheGateBootstrappingCloudKeySet *ck) {
    switch (g) {
        case G_NAND: bootsNAND(res, a, b, ck); break;
        case G_AND: bootsAND(res, a, b, ck); break;
        case G_OR: bootsOR(res, a, b, ck); break;
        case G_XOR: bootsXOR(res, a, b, ck); break;
        case G_XNOR: bootsXNOR(res, a, b, ck); break;
        case G_NOR: bootsNOR(res, a, b, ck); break;
        case G_ANDNY: bootsANDNY(res, a, b, ck); break;
        case G_ANDYN: bootsANDYN(res, a, b, ck); break;
        case G_ORNY: bootsORNY(res, a, b, ck); break;
        case G_ORYN: bootsORYN(res, a, b, ck); break;
        case G_MUX: bootsMUX(res, a, b, c, ck); break;
        case G_NOT: bootsNOT(res, a, ck); break;
        case G_COPY: bootsCOPY(res, a, ck); break;
        case G_CONSTANT: bootsCONSTANT(res, cst, ck); break;
    }
}
int gate_affines(int g, GateAffine o[2]) {
    const int32_t e8 = T_1s8, q4 = 1 << 30;
    switch (g) {
        case G_NAND: o[0] = {e8, -1, -1, 0}; return 1;
        case G_AND: o[0] = {-e8, 1, 1, 0}; return 1;
        case G_OR: o[0] = {e8, 1, 1, 0}; return 1;
        case G_XOR: o[0] = {q4, 2, 2, 0}; return 1;
        case G_XNOR: o[0] = {-q4, -2, -2, 0}; return 1;
        case G_NOR: o[0] = {-e8, -1, -1, 0}; return 1;
        case G_ANDNY: o[0] = {-e8, -1, 1, 0}; return 1;
        case G_ANDYN: o[0] = {-e8, 1, -1, 0}; return 1;
        case G_ORNY: o[0] = {e8, -1, 1, 0}; return 1;
        case G_ORYN: o[0] = {e8, 1, -1, 0}; return 1;
        case G_MUX: o[0] = {-e8, 1, 1, 0}; o[1] = {-e8, -1, 0, 1}; return 2;
    }
    return 0;
}

} // namespace sim

namespace sim {
namespace {
struct RunInThread { void *(*fn)(void *); void *arg; pid_t tid; sem_t done; };
void *run_in_thread_main(void *v) {
    RunInThread *t = (RunInThread *) v;
    t->tid = (pid_t) syscall(SYS_gettid);
    t->fn(t->arg);
    sem_post(&t->done);      // last access to *t
    return nullptr;
}
}
void run_in_thread(void *(*fn)(void *), void *arg, size_t stack) {
    RunInThread t{fn, arg, 0, {}};
    sem_init(&t.done, 0, 0);
    pthread_attr_t at; pthread_attr_init(&at); pthread_attr_setstacksize(&at, stack); pthread_attr_setdetachstate(&at, PTHREAD_CREATE_DETACHED);
    pthread_t th;
    if (pthread_create(&th, &at, run_in_thread_main, &t) != 0) { fprintf(stderr, "SIM-ERROR: pthread_create failed\n"); _exit(3); }
    pthread_attr_destroy(&at);
    while (sem_wait(&t.done) != 0 && errno == EINTR) {}
    // the body has returned; wait until the kernel task is gone (thread_local destructors and the runtime's own thread
    // teardown have run by then)
    pid_t pid = getpid();
    for (unsigned spins = 0; syscall(SYS_tgkill, pid, t.tid, 0) == 0; spins++) {
        if (spins < 50) sched_yield(); else { struct timespec ts = {0, 50000}; nanosleep(&ts, nullptr); }
    }
    sem_destroy(&t.done);
}
} // namespace sim
