#!/bin/bash
# Runs the repository's own test suite (115 gtest cases, 5 back-ends) from /repo's current
# working tree with the verification guard OFF (no -DTFHE_VERIF_SIM, no simulator involved).
# Usage: tools/baseline_off.sh [repo-dir] [build-type ...]   (default: /repo, optim and debug)
# Prints "BASELINE passed=<n> failed=<m>" per build type and exits non-zero on any failure.
set -u
REPO=${1:-/repo}
shift || true
TYPES=${*:-optim debug}
OUT=$(mktemp -d /tmp/tfhe-baseline.XXXXXX)
trap 'rm -rf "$OUT"' EXIT
rc=0
for bt in $TYPES; do
  B=$OUT/$bt
  mkdir -p "$B"
  ( cd "$B" && cmake "$REPO/src" -DCMAKE_BUILD_TYPE=$bt -DENABLE_TESTS=on -DENABLE_FFTW=on \
      -DENABLE_NAYUKI_PORTABLE=on -DENABLE_NAYUKI_AVX=on -DENABLE_SPQLIOS_AVX=on -DENABLE_SPQLIOS_FMA=on \
      > cmake.log 2>&1 && make -j16 > make.log 2>&1 ) || { echo "BASELINE build failed for $bt"; tail -30 "$B/make.log" "$B/cmake.log" 2>/dev/null; rc=1; continue; }
  pass=0; fail=0
  for be in nayuki-portable fftw nayuki-avx spqlios-avx spqlios-fma; do
    exe=$B/test/unittests-$be
    [ -x "$exe" ] || { echo "missing $exe"; rc=1; continue; }
    "$exe" --gtest_output=xml:$B/$be.xml > "$B/$be.out" 2>&1 || rc=1
    p=$(grep -c '^\[       OK \]' "$B/$be.out"); f=$(grep -c '^\[  FAILED  \].*(' "$B/$be.out")
    pass=$((pass+p)); fail=$((fail+f))
    [ "$f" -gt 0 ] && grep '^\[  FAILED  \]' "$B/$be.out" | sort -u | head -20
  done
  echo "BASELINE type=$bt passed=$pass failed=$fail (5 back-ends x 115 cases = 575 expected)"
  [ "$pass" -eq 575 ] || rc=1
done
exit $rc
