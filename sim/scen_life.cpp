// S4: API life cycles over the configuration matrix (C16).  Sequences are generated from a typestate model so that only
// orders the API allows are produced: parameters -> key generation -> encrypt / gates / low-level calls / export ->
// import (cloud key, secret key, ciphertexts) -> evaluation with imported keys -> deletion through the matching API ->
// collector finalize; threads are created and joined inside the sequence.  Deciders: sanitizer reports (worker death,
// classified by the driver), LeakSanitizer recoverable check after everything has been released (asan builds),
// dirty-memory differential (every observable byte enters the event hash; the determinism preamble runs each plan under
// two different fill patterns).
#include "scen.h"
#include <algorithm>
#include <pthread.h>
#include <malloc.h>
#include <numeric_functions.h>
#include <polynomials_arithmetic.h>
#if defined(__SANITIZE_ADDRESS__)
#include <sanitizer/lsan_interface.h>
#endif

namespace sim {
namespace {

struct LifeCfg { int n, k, l, Bgbit, t, basebit; };

static Plan gen_life(uint64_t seed, const Op &opts) {
    Rng r(seed);
    Plan p; p.scenario = "life"; p.seed = seed; p.cfg.kind = "cfg";
    static const int ns[] = {1, 3, 7, 8, 9, 500, 630, 1024, 1025, 1100};
    static const int lB[][2] = {{1, 8}, {2, 10}, {3, 7}, {2, 16}, {4, 8}, {8, 4}, {1, 16}, {1, 1}, {6, 5}, {2, 15}};
    static const int tb[][2] = {{8, 2}, {2, 1}, {1, 1}, {16, 1}, {4, 4}, {5, 3}, {15, 2}, {31, 1}, {1, 5}, {3, 5}};
    int maxn = (int) opts.geti("maxn", 1100);
    LifeCfg c;
    for (int attempt = 0;; attempt++) {
        do c.n = ns[r.below(10)]; while (c.n > maxn);
        if (opts.has("n")) c.n = (int) opts.geti("n");
        c.k = r.bern(0.35) ? 2 : 1;
        int i = (int) r.below(10); while (opts.has("Bmax") && lB[i][1] > opts.geti("Bmax")) i = (int) r.below(10); c.l = lB[i][0]; c.Bgbit = lB[i][1];
        int j = (int) r.below(10); c.t = tb[j][0]; c.basebit = tb[j][1];
        double ks = (double) c.k * 1024 * c.t * (1 << c.basebit) * (c.n + 1) * 4.0 * 2;
        double bk = (double) c.n * (c.k + 1) * c.l * (c.k + 1) * 1024 * 12.0;
        if (ks + bk < opts.getd("membudget", 160e6) || attempt > 200) break;
    }
    p.cfg.seti("n", c.n).seti("k", c.k).seti("l", c.l).seti("Bgbit", c.Bgbit).seti("t", c.t).seti("basebit", c.basebit);
    static const double aks[] = {0, 1e-9, 3.0517578125e-05}; static const double abk[] = {0, 2.98023223876953125e-08, 1e-10};
    p.cfg.setd("aks", aks[r.below(3)]).setd("abk", abk[r.below(3)]);
    // typestate: 0 nothing, 1 params, 2 key
    int nops = (int) opts.geti("nops", 10);
    bool big = c.n >= 500;
    static const char *kinds[] = {"encrypt", "gate", "gate", "export_cloud", "export_secret", "export_ct", "import_cloud", "import_secret", "import_ct", "lowlevel", "thread",
                                  "quad", "delete_ct", "delete_imported", "params_io", "key2", "lowkey", "thread_alloc"};
    for (int i = 0; i < nops; i++) {
        const char *k = kinds[r.below(18)];
        if (big && !strcmp(k, "lowkey")) k = "gate";
        if (big && (!strcmp(k, "key2"))) k = "gate";
        Op o; o.kind = "op"; o.set("k", k).setu("s", r.next()).seti("x", (int) r.below(8)).seti("y", (int) r.below(8)).seti("z", (int) r.below(8)).seti("tr", (int) r.below(2));
        p.ops.push_back(o);
    }
    return p;
}

struct Life {
    LifeCfg c;
    TFheGateBootstrappingParameterSet *params = nullptr;
    TFheGateBootstrappingSecretKeySet *sk = nullptr;
    std::vector<TFheGateBootstrappingSecretKeySet *> sks2;
    std::vector<TFheGateBootstrappingCloudKeySet *> cloud_imp;
    std::vector<TFheGateBootstrappingSecretKeySet *> secret_imp;
    struct CtArr { LweSample *p; int n; int how; const TFheGateBootstrappingParameterSet *par; };   // how: 0 array API, 1 single new, 2 alloc+init
    std::vector<CtArr> cts;
    std::string cloud_bytes, secret_bytes, ct_bytes; int ct_bytes_n = 0;
    RunResult *r;
};

static const TFheGateBootstrappingCloudKeySet *pick_cloud(Life &L, int x) {
    if (!L.cloud_imp.empty() && (x & 1)) return L.cloud_imp[(size_t) x % L.cloud_imp.size()];
    if (!L.secret_imp.empty() && (x & 2)) return &L.secret_imp[(size_t) x % L.secret_imp.size()]->cloud;
    return &L.sk->cloud;
}
static LweSample *ct_at(Life::CtArr &a, int i) { return a.p + (i % a.n); }

static void do_gate(Life &L, int x, int y, int z, uint64_t s) {
    if (L.cts.empty()) return;
    const TFheGateBootstrappingCloudKeySet *ck = pick_cloud(L, x);
    Life::CtArr &A = L.cts[(size_t) y % L.cts.size()];
    Rng r(s);
    int g = (int) r.below(G_COUNT);
    LweSample *out = ct_at(A, z);
    LweSample *tmp = new_gate_bootstrapping_ciphertext(L.params);
    gate_apply(g, tmp, ct_at(A, (int) r.below(8)), ct_at(A, (int) r.below(8)), ct_at(A, (int) r.below(8)), (int) r.below(2), ck);
    lweCopy(out, tmp, L.params->in_out_params);
    delete_gate_bootstrapping_ciphertext(tmp);
    L.r->ev.u64(obs::hash_lwe(out, L.c.n));
    L.r->ev.u64((uint64_t) bootsSymDecrypt(out, L.sk));
}

struct ThreadJob { Life *L; const Op *o; };
static void *thread_body(void *v) {
    ThreadJob *j = (ThreadJob *) v;
    // a short-lived thread evaluates with the shared key (its per-thread FFT state is created here and dies with it)
    do_gate(*j->L, (int) j->o->geti("x"), (int) j->o->geti("y"), (int) j->o->geti("z"), j->o->getu("s"));
    if (j->o->geti("tr")) {
        IntPolynomial *a = new_IntPolynomial(1024); TorusPolynomial *b = new_TorusPolynomial(1024), *c = new_TorusPolynomial(1024);
        for (int i = 0; i < 1024; i++) { a->coefs[i] = i % 7 - 3; b->coefsT[i] = i * 2654435761u; }
        torusPolynomialMultFFT(c, a, b);
        j->L->r->ev.bytes(c->coefsT, 4096);
        delete_IntPolynomial(a); delete_TorusPolynomial(b); delete_TorusPolynomial(c);
    }
    return nullptr;
}

// objects of the Lagrange (FFT) domain allocated by a thread that exits before anybody uses them
struct AllocJob { const TGswParams *gp; const TLweParams *tp; TGswSampleFFT *g; TLweSampleFFT *t; LagrangeHalfCPolynomial *lh; };
static void *alloc_body(void *v) {
    AllocJob *j = (AllocJob *) v;
    j->g = new_TGswSampleFFT(j->gp); j->t = new_TLweSampleFFT(j->tp); j->lh = new_LagrangeHalfCPolynomial_array(2, 1024);
    return nullptr;
}

static void exec_life(const Plan &p, RunResult &r) {
    Life L; L.r = &r;
    L.c = {(int) p.cfg.geti("n", 8), (int) p.cfg.geti("k", 1), (int) p.cfg.geti("l", 2), (int) p.cfg.geti("Bgbit", 8), (int) p.cfg.geti("t", 2), (int) p.cfg.geti("basebit", 1)};
    if (L.c.l * L.c.Bgbit > 32 || L.c.t * L.c.basebit > 31 || L.c.n < 1) return;
    lib_seed(mix64(p.seed, 0x11fe));
#if defined(__SANITIZE_ADDRESS__)
    __lsan_do_recoverable_leak_check();   // baseline: whatever earlier runs of this worker left behind is reported once, not attributed
#endif
    ParamSpec sp; sp.name = "S"; sp.n = L.c.n; sp.k = L.c.k; sp.l = L.c.l; sp.Bgbit = L.c.Bgbit; sp.t = L.c.t; sp.basebit = L.c.basebit; sp.a_ks = p.cfg.getd("aks"); sp.a_bk = p.cfg.getd("abk");
    L.params = make_params(sp);
    L.sk = new_random_gate_bootstrapping_secret_keyset(L.params);
    r.probes.add(fmt("cfg_n%d", L.c.n)); r.probes.add(fmt("cfg_k%d", L.c.k));
    if (L.c.n > 1024) r.probes.add("n_greater_than_N");
    if (L.c.n < 8) r.probes.add("n_below_vector_width");
    // always one ciphertext array and one gate so that every configuration evaluates
    { LweSample *a = new_gate_bootstrapping_ciphertext_array(4, L.params); for (int i = 0; i < 4; i++) bootsSymEncrypt(a + i, i & 1, L.sk); L.cts.push_back({a, 4, 0, L.params}); }
    do_gate(L, 0, 0, 0, p.seed);
    if (L.c.n > 1024 || L.c.n < 8 || p.cfg.geti("allgates")) {
        // boundary dimensions (n > N, n below the vector width): every gate of the API once
        Life::CtArr &A = L.cts[0];
        LweSample *tmp = new_gate_bootstrapping_ciphertext(L.params);
        for (int g = 0; g < G_COUNT; g++) { gate_apply(g, tmp, ct_at(A, g), ct_at(A, g + 1), ct_at(A, g + 2), g & 1, &L.sk->cloud); r.ev.u64(obs::hash_lwe(tmp, L.c.n)); }
        delete_gate_bootstrapping_ciphertext(tmp);
        r.probes.add("all_gates_at_boundary_dimension");
    }
    for (size_t oi = 0; oi < p.ops.size(); oi++) {
        const Op &o = p.ops[oi];
        std::string k = o.gets("k");
        int x = (int) o.geti("x"), y = (int) o.geti("y"), z = (int) o.geti("z"), tr = (int) o.geti("tr");
        Rng rr(o.getu("s"));
        WireCfg wc = draw_wire(rr, tr), rc = draw_wire(rr);
        bool big = L.c.n >= 500;
        if (big) { wc.wmode = 0; wc.wbuf = 1 << 16; rc.rmax = 0; rc.rbuf = 1 << 16; }
        if (k == "encrypt") {
            int how = x % 3, cnt = how == 0 ? 1 + y : 1;
            LweSample *a = how == 0 ? new_gate_bootstrapping_ciphertext_array(cnt, L.params) : how == 1 ? new_gate_bootstrapping_ciphertext(L.params) : alloc_LweSample();
            if (how == 2) init_LweSample(a, L.params->in_out_params);
            for (int i = 0; i < cnt; i++) bootsSymEncrypt(a + i, (z >> (i & 3)) & 1, L.sk);
            L.cts.push_back({a, cnt, how, L.params});
        } else if (k == "gate") do_gate(L, x, y, z, o.getu("s"));
        else if (k == "export_cloud") { Obj c; c.kind = K_CLOUDKEY; c.p = (void *) pick_cloud(L, x); c.owned = false; WriteLog log; export_via(c, wc, &log); L.cloud_bytes.swap(log.bytes); r.ev.u64(hash_bytes(L.cloud_bytes.data(), L.cloud_bytes.size())); }
        else if (k == "export_secret") { Obj c; c.kind = K_SECRETKEY; c.p = L.sk; c.owned = false; WriteLog log; export_via(c, wc, &log); L.secret_bytes.swap(log.bytes); r.ev.u64(hash_bytes(L.secret_bytes.data(), L.secret_bytes.size())); }
        else if (k == "export_ct" && !L.cts.empty()) {
            Life::CtArr &A = L.cts[(size_t) x % L.cts.size()]; WriteLog log;
            for (int i = 0; i < A.n; i++) { Obj c; c.kind = K_GATECT; c.p = A.p + i; c.gbp = L.params; c.owned = false; WriteLog l1; export_via(c, wc, &l1); log.bytes += l1.bytes; }
            L.ct_bytes.swap(log.bytes); L.ct_bytes_n = A.n; r.ev.u64(hash_bytes(L.ct_bytes.data(), L.ct_bytes.size()));
        } else if (k == "import_cloud" && !L.cloud_bytes.empty() && L.cloud_imp.size() < 2) {
            Obj like; like.kind = K_CLOUDKEY; like.p = (void *) &L.sk->cloud; like.owned = false; bool sf = false;
            Obj o2 = import_via(like, L.cloud_bytes, rc, nullptr, &sf);
            if (o2.p) L.cloud_imp.push_back((TFheGateBootstrappingCloudKeySet *) o2.p);
        } else if (k == "import_secret" && !L.secret_bytes.empty() && L.secret_imp.size() < 2) {
            Obj like; like.kind = K_SECRETKEY; like.p = L.sk; like.owned = false; bool sf = false;
            Obj o2 = import_via(like, L.secret_bytes, rc, nullptr, &sf);
            if (o2.p) L.secret_imp.push_back((TFheGateBootstrappingSecretKeySet *) o2.p);
        } else if (k == "import_ct" && L.ct_bytes_n > 0) {
            LweSample *a = new_gate_bootstrapping_ciphertext_array(L.ct_bytes_n, L.params);
            ReadState rs; rs.data = &L.ct_bytes; rs.c = rc; rs.c.transport = 1;
            StoreInBuf sb(&rs); std::istream is(&sb);
            for (int i = 0; i < L.ct_bytes_n; i++) import_gate_bootstrapping_ciphertext_fromStream(is, a + i, L.params);
            for (int i = 0; i < L.ct_bytes_n; i++) r.ev.u64(obs::hash_lwe(a + i, L.c.n));
            L.cts.push_back({a, L.ct_bytes_n, 0, L.params});
        } else if (k == "lowlevel") {
            const LweBootstrappingKeyFFT *bkf = pick_cloud(L, x)->bkFFT; const LweBootstrappingKey *bk = pick_cloud(L, x)->bk;
            const LweParams *ext = &L.params->tgsw_params->tlwe_params->extracted_lweparams;
            LweSample *xin = new_LweSample(L.params->in_out_params), *u = new_LweSample(ext), *v = new_LweSample(L.params->in_out_params);
            bootsSymEncrypt(xin, x & 1, L.sk);
            switch (y % 5) {
                case 0: tfhe_bootstrap_woKS_FFT(u, bkf, (int32_t) rr.next(), xin); lweKeySwitch(v, bkf->ks, u); break;
                case 1: tfhe_bootstrap_FFT(v, bkf, T_1s8, xin); break;
                case 2: if (L.c.n <= 16) { tfhe_bootstrap_woKS(u, bk, T_1s8, xin); lweKeySwitch(v, bk->ks, u); } else { lweNoiselessTrivial(u, 1, ext); lweKeySwitch(v, bkf->ks, u); } break;
                case 3: { for (int i = 0; i < ext->n; i++) u->a[i] = (int32_t) rr.next(); u->b = (int32_t) rr.next(); lweKeySwitch(v, bkf->ks, u); break; }
                default: { LweSample *w = new_LweSample(L.params->in_out_params); lweCopy(w, xin, L.params->in_out_params); lweSubTo(w, xin, L.params->in_out_params); lweAddMulTo(w, -3, xin, L.params->in_out_params); lweNegate(v, w, L.params->in_out_params); delete_LweSample(w); }
            }
            r.ev.u64(obs::hash_lwe(v, L.c.n));
            delete_LweSample(xin); delete_LweSample(u); delete_LweSample(v);
        } else if (k == "thread") {
            ThreadJob j{&L, &o};
            run_in_thread(thread_body, &j);
            r.probes.add("thread_exit");
        } else if (k == "quad") {
            // alloc/init/destroy/free quadruples and array variants of several types
            const TLweParams *tp = L.params->tgsw_params->tlwe_params; const TGswParams *gp = L.params->tgsw_params;
            switch (x % 6) {
                case 0: { TLweSample *s = alloc_TLweSample(); init_TLweSample(s, tp); tLweClear(s, tp); destroy_TLweSample(s); free_TLweSample(s); break; }
                case 1: { TGswSample *s = new_TGswSample_array(2, gp); tGswClear(s, gp); tGswAddH(s + 1, gp); delete_TGswSample_array(2, s); break; }
                case 2: { TGswSampleFFT *s = new_TGswSampleFFT(gp); tGswFFTClear(s, gp); delete_TGswSampleFFT(s); break; }
                case 3: { LweKey *kk = alloc_LweKey_array(2); init_LweKey_array(2, kk, L.params->in_out_params); lweKeyGen(kk + 1); destroy_LweKey_array(2, kk); free_LweKey_array(2, kk); break; }
                case 4: { TorusPolynomial *t = new_TorusPolynomial_array(3, 1024); torusPolynomialUniform(t + 2); delete_TorusPolynomial_array(3, t); LagrangeHalfCPolynomial *lh = new_LagrangeHalfCPolynomial_array(2, 1024); delete_LagrangeHalfCPolynomial_array(2, lh); break; }
                default: { TLweKey *tk = new_TLweKey(tp); tLweKeyGen(tk); LweKey *ek = new_LweKey(&tp->extracted_lweparams); tLweExtractKey(ek, tk); delete_LweKey(ek); delete_TLweKey(tk); }
            }
        } else if (k == "delete_ct" && L.cts.size() > 1) {
            size_t i = 1 + (size_t) x % (L.cts.size() - 1);
            Life::CtArr A = L.cts[i]; L.cts.erase(L.cts.begin() + (long) i);
            if (A.how == 0) delete_gate_bootstrapping_ciphertext_array(A.n, A.p); else if (A.how == 1) delete_gate_bootstrapping_ciphertext(A.p); else { destroy_LweSample(A.p); free_LweSample(A.p); }
        } else if (k == "delete_imported") {
            if (!L.cloud_imp.empty() && (x & 1)) { delete_gate_bootstrapping_cloud_keyset(L.cloud_imp.back()); L.cloud_imp.pop_back(); }
            else if (!L.secret_imp.empty()) { delete_gate_bootstrapping_secret_keyset(L.secret_imp.back()); L.secret_imp.pop_back(); }
        } else if (k == "params_io") {
            // every stand-alone parameter kind: the imported object belongs to the caller (documented: "must be deleted with
            // delete_X()"), parameter objects it refers to belong to the library's collector, which the teardown finalizes
            Obj c; c.owned = false;
            switch (x % 4) {
                case 0: c.kind = K_GBPARAMS; c.p = L.params; break;
                case 1: c.kind = K_LWEPARAMS; c.p = (void *) L.params->in_out_params; break;
                case 2: c.kind = K_TLWEPARAMS; c.p = (void *) L.params->tgsw_params->tlwe_params; break;
                default: c.kind = K_TGSWPARAMS; c.p = (void *) L.params->tgsw_params; break;
            }
            WriteLog log; export_via(c, wc, &log); bool sf = false;
            Obj b = import_via(c, log.bytes, rc, nullptr, &sf); r.ev.u64(hash_bytes(log.bytes.data(), log.bytes.size()));
            // (field equality is C05's business; under valgrind the library's stold() runs on emulated 64-bit long doubles and a
            //  1-ulp difference of a noise field is an artefact of the tool, seen once when an equality oracle stood here)
            obj_free(b);
            r.probes.add(fmt("params_io_%s", kind_name(c.kind)));
        } else if (k == "lowkey") {
            // low-level key objects with their own life cycles: a bootstrapping key, its FFT image (a self-contained copy: the
            // constructor copies the key-switching key and converts every row), deleted in either order with uses in between
            LweBootstrappingKey *bk = new_LweBootstrappingKey(L.c.t, L.c.basebit, L.params->in_out_params, L.params->tgsw_params);
            tfhe_createLweBootstrappingKey(bk, L.sk->lwe_key, L.sk->tgsw_key);
            int nf = 1 + (y & 1);
            LweBootstrappingKeyFFT *bf = nf == 1 ? new_LweBootstrappingKeyFFT(bk) : new_LweBootstrappingKeyFFT_array(nf, bk);
            LweSample *xin = new_LweSample(L.params->in_out_params), *v = new_LweSample(L.params->in_out_params);
            bootsSymEncrypt(xin, x & 1, L.sk);
            if (x & 2) {            // order A: the coefficient-domain key goes first, the FFT key keeps working
                delete_LweBootstrappingKey(bk); bk = nullptr;
                tfhe_bootstrap_FFT(v, bf + (nf - 1), T_1s8, xin); r.ev.u64(obs::hash_lwe(v, L.c.n)); r.ev.u64((uint64_t) bootsSymDecrypt(v, L.sk));
                if (nf == 1) delete_LweBootstrappingKeyFFT(bf); else delete_LweBootstrappingKeyFFT_array(nf, bf);
            } else {                // order B: the FFT key goes first, the coefficient-domain key keeps working
                tfhe_bootstrap_FFT(v, bf, T_1s8, xin); r.ev.u64(obs::hash_lwe(v, L.c.n));
                if (nf == 1) delete_LweBootstrappingKeyFFT(bf); else delete_LweBootstrappingKeyFFT_array(nf, bf);
                { const LweParams *ext = &L.params->tgsw_params->tlwe_params->extracted_lweparams; LweSample *u = new_LweSample(ext);
                  lweNoiselessTrivial(u, xin->b, ext); lweKeySwitch(v, bk->ks, u); r.ev.u64(obs::hash_lwe(v, L.c.n)); delete_LweSample(u); }
                delete_LweBootstrappingKey(bk); bk = nullptr;
            }
            delete_LweSample(xin); delete_LweSample(v);
            r.probes.add((x & 2) ? "lowkey_bk_deleted_first" : "lowkey_fft_deleted_first");
        } else if (k == "thread_alloc") {
            // allocation and use on different threads: the allocating thread is gone when the objects are first used as FFT
            // destinations / sources; the same conversions through objects allocated here must give the same bytes
            const TGswParams *gp = L.params->tgsw_params; const TLweParams *tp = gp->tlwe_params;
            AllocJob j{gp, tp, nullptr, nullptr, nullptr};
            run_in_thread(alloc_body, &j);
            TGswSampleFFT *g2 = new_TGswSampleFFT(gp); TLweSampleFFT *t2 = new_TLweSampleFFT(tp);
            TGswSample *src = new_TGswSample(gp), *b1 = new_TGswSample(gp), *b2 = new_TGswSample(gp);
            tGswSymEncryptInt(src, 1 + (x & 1), tp->alpha_min, L.sk->tgsw_key);
            tGswToFFTConvert(j.g, src, gp); tGswToFFTConvert(g2, src, gp);
            tGswFromFFTConvert(b1, j.g, gp); tGswFromFFTConvert(b2, g2, gp);
            bool same = true;
            for (int q = 0; q < gp->kpl && same; q++) for (int u = 0; u <= tp->k && same; u++) same = memcmp(b1->all_sample[q].a[u].coefsT, b2->all_sample[q].a[u].coefsT, (size_t) tp->N * 4) == 0;
            TLweSample *ts = new_TLweSample(tp), *tb1 = new_TLweSample(tp), *tb2 = new_TLweSample(tp);
            tLweSymEncryptZero(ts, tp->alpha_min, &L.sk->tgsw_key->tlwe_key);
            tLweToFFTConvert(j.t, ts, tp); tLweToFFTConvert(t2, ts, tp); tLweFromFFTConvert(tb1, j.t, tp); tLweFromFFTConvert(tb2, t2, tp);
            for (int u = 0; u <= tp->k && same; u++) same = memcmp(tb1->a[u].coefsT, tb2->a[u].coefsT, (size_t) tp->N * 4) == 0;
            IntPolynomial *ip = new_IntPolynomial(1024); TorusPolynomial *o1 = new_TorusPolynomial(1024), *o2 = new_TorusPolynomial(1024);
            for (int q = 0; q < 1024; q++) ip->coefs[q] = (q * 7 + x) % 5 - 2;
            LagrangeHalfCPolynomial *l2 = new_LagrangeHalfCPolynomial(1024);
            IntPolynomial_ifft(j.lh, ip); IntPolynomial_ifft(l2, ip); TorusPolynomial_fft(o1, j.lh); TorusPolynomial_fft(o2, l2);
            if (same) same = memcmp(o1->coefsT, o2->coefsT, 4096) == 0;
            if (!same) r.v.raise("thread-dependent", "C16.alloc-thread", "FFT conversions through objects allocated by a thread that has exited differ from the same conversions through objects allocated by the calling thread");
            r.ev.bytes(o1->coefsT, 4096); r.ev.u64(obs::hash_tlwe(tb1, tp->N, tp->k));
            delete_LagrangeHalfCPolynomial(l2); delete_LagrangeHalfCPolynomial_array(2, j.lh); delete_IntPolynomial(ip); delete_TorusPolynomial(o1); delete_TorusPolynomial(o2);
            delete_TLweSample(ts); delete_TLweSample(tb1); delete_TLweSample(tb2); delete_TGswSample(src); delete_TGswSample(b1); delete_TGswSample(b2);
            delete_TGswSampleFFT(j.g); delete_TGswSampleFFT(g2); delete_TLweSampleFFT(j.t); delete_TLweSampleFFT(t2);
            r.probes.add("objects_allocated_by_exited_thread");
        } else if (k == "key2" && L.sks2.size() < 1) {
            L.sks2.push_back(new_random_gate_bootstrapping_secret_keyset(L.params));
        }
        r.steps++;
    }
    // teardown through the matching deletion API, in an order the API allows
    for (auto &A : L.cts) { if (A.how == 0) delete_gate_bootstrapping_ciphertext_array(A.n, A.p); else if (A.how == 1) delete_gate_bootstrapping_ciphertext(A.p); else { destroy_LweSample(A.p); free_LweSample(A.p); } }
    for (auto *c : L.cloud_imp) delete_gate_bootstrapping_cloud_keyset(c);
    for (auto *s : L.secret_imp) delete_gate_bootstrapping_secret_keyset(s);
    for (auto *s : L.sks2) delete_gate_bootstrapping_secret_keyset(s);
    delete_gate_bootstrapping_secret_keyset(L.sk);
    delete_gate_bootstrapping_parameters(L.params);
    TfheGarbageCollector::finalize();
    L.cts.clear(); L.cloud_bytes.clear(); L.cloud_bytes.shrink_to_fit(); L.secret_bytes.clear(); L.secret_bytes.shrink_to_fit(); L.ct_bytes.clear();
#if defined(__SANITIZE_ADDRESS__)
    // (4) live set: nothing allocated on behalf of the sequence is alive (LeakSanitizer prints the allocation stacks on stderr)
    if (__lsan_do_recoverable_leak_check()) r.v.raise("leak", "C16.leak", "LeakSanitizer: memory allocated during the sequence is unreachable after everything was released through the deletion API (see stderr of the replay for allocation stacks)");
    r.probes.add("lsan_checked");
#endif
    Hash ch; ch.str(p.cfg.str()); for (auto &o : p.ops) ch.str(o.gets("k"));
    r.case_hash = ch.get(); r.nontrivial = true;
    r.sample = fmt("cfg n=%d k=%d l=%d Bgbit=%d t=%d basebit=%d ops=%zu", L.c.n, L.c.k, L.c.l, L.c.Bgbit, L.c.t, L.c.basebit, p.ops.size());
}

const Scenario SC = {"life", gen_life, exec_life};
ScenarioReg reg(&SC);
} // namespace
} // namespace sim
