#!/bin/bash
# every registered check (quick by default) and the determinism proof, against /repo's current working tree
cd "$(dirname "$0")/.."
TIER=${1:-quick}
rc=0
for c in $(python3 -c "import json; print(' '.join(x['property_id'] for x in json.load(open('MANIFEST.json'))['checks']))"); do
  python3 tools/check.py $c --tier $TIER 2>&1 | grep -E "^\[C|^VIOLATION|^KNOWN-FINDING|SIM-ERROR" ; [ ${PIPESTATUS[0]} -ne 0 ] && rc=1
done
python3 tools/check.py determinism --tier $TIER | tail -1
exit $rc
