// S5: randomness and client round trips.
//   rand  C07: reseed => identical bytes (same thread, other thread, after histories with odd/even numbers of draws),
//              different seeds differ, entropy watchdog silent; noise/mask/key statistics of fresh samples and of every
//              row of generated key-switching and bootstrapping keys (sums merged and judged by the driver)
//   enc   C03: decrypt(encrypt(m)) == m for gate bits, LWE, TLWE (constant and polynomial), TGSW, noiseless trivial
//              samples under unrelated keys, at the admissible noise maximum, optionally through the wire
#include "scen.h"
#include <cmath>
#include <map>
#include <algorithm>
#include <pthread.h>
#include <numeric_functions.h>
#include <polynomials_arithmetic.h>

namespace sim {
namespace {

static inline int32_t sdiff(uint32_t a, uint32_t b) { return (int32_t) (a - b); }
static const double ALPHAS[] = {9.313225746154785e-10 /*2^-30*/, 7.450580596923828e-09 /*2^-27*/, 2.98023223876953125e-08 /*2^-25*/, 7.18e-9, 4.76837158203125e-07 /*2^-21*/,
                                3.0517578125e-05 /*2^-15*/, 2.44e-5, 0.0009765625 /*2^-10*/, 0.012467, 0.03125 /*2^-5*/};
static const int NALPHA = sizeof ALPHAS / sizeof *ALPHAS;

struct Acc { double n = 0, s1 = 0, s2 = 0, s4 = 0; void add(double z) { n += 1; s1 += z; s2 += z * z; s4 += z * z * z * z; } };
static void put(RunResult &r, const std::string &key, const Acc &a) {
    if (a.n == 0) return;
    r.stats[key + ".n"] += a.n; r.stats[key + ".s1"] += a.s1; r.stats[key + ".s2"] += a.s2; r.stats[key + ".s4"] += a.s4;
}
struct MaskAcc {
    std::vector<double> hist = std::vector<double>(256, 0.0); double words = 0; double lag[4] = {0, 0, 0, 0}; double lagn = 0; uint32_t prev[4] = {0, 0, 0, 0}; int have = 0;
    void add(uint32_t w) {
        for (int b = 0; b < 4; b++) hist[(w >> (8 * b)) & 255] += 1;
        words += 1;
        double x = (double) (int32_t) w / 2147483648.0;
        for (int k = 0; k < 4 && k < have; k++) lag[k] += x * ((double) (int32_t) prev[k] / 2147483648.0);
        if (have >= 4) lagn += 1;
        for (int k = 3; k > 0; k--) prev[k] = prev[k - 1];
        prev[0] = w; if (have < 4) have++;
    }
    void put(RunResult &r, const std::string &key) const {
        if (words == 0) return;
        r.stats[key + ".words"] += words; r.stats[key + ".lagn"] += lagn;
        for (int k = 0; k < 4; k++) r.stats[key + ".lag" + std::to_string(k + 1)] += lag[k];
        for (int b = 0; b < 256; b++) r.stats[key + ".h" + std::to_string(b)] += hist[(size_t) b];
    }
};

// ------------------------------------------------------------------ what one seed produces (hash of all bytes)
static uint64_t produce(uint64_t seed, int variant) {
    lib_seed(seed);
    Hash h;
    ParamSpec s2; s2.name = "S"; s2.n = 3 + variant % 3; s2.k = 1; s2.l = 1; s2.Bgbit = 8; s2.t = 2; s2.basebit = 1; s2.a_ks = 1e-5; s2.a_bk = 1e-8;
    TFheGateBootstrappingParameterSet *ps = make_params(s2);
    TFheGateBootstrappingSecretKeySet *k = new_random_gate_bootstrapping_secret_keyset(ps);
    Obj ko; ko.kind = K_SECRETKEY; ko.p = k; ko.owned = false;
    WriteLog log; WireCfg wc; wc.transport = 1; wc.wbuf = 65536; export_via(ko, wc, &log);
    h.bytes(log.bytes.data(), log.bytes.size());
    LweSample *c = new_gate_bootstrapping_ciphertext(ps);
    for (int i = 0; i < 3; i++) { bootsSymEncrypt(c, i & 1, k); h.u64(obs::hash_lwe(c, s2.n)); }
    delete_gate_bootstrapping_ciphertext(c);
    delete_gate_bootstrapping_secret_keyset(k);
    delete_gate_bootstrapping_parameters(ps);
    return h.get();
}
struct ThreadArg { uint64_t seed; int variant; uint64_t out; };
static void *produce_thread(void *v) { ThreadArg *a = (ThreadArg *) v; a->out = produce(a->seed, a->variant); return nullptr; }
// the same production WITHOUT seeding inside: whatever state the (process-wide) library generator has is used
static uint64_t produce_noseed(int variant) {
    Hash h;
    LweParams *lp = new_LweParams(4 + variant, 1e-5, 0.1); LweKey *lk = new_LweKey(lp); lweKeyGen(lk);
    h.bytes(lk->key, (size_t) lp->n * 4);
    LweSample *c = new_LweSample(lp);
    for (int i = 0; i < 3; i++) { lweSymEncrypt(c, 12345, 1e-5, lk); h.u64(obs::hash_lwe(c, lp->n)); }
    delete_LweSample(c); delete_LweKey(lk); delete_LweParams(lp);
    return h.get();
}
static void *produce_noseed_thread(void *v) { ThreadArg *a = (ThreadArg *) v; a->out = produce_noseed(a->variant); return nullptr; }

static Plan gen_rand(uint64_t seed, const Op &opts) {
    Rng r(seed);
    Plan p; p.scenario = "rand"; p.seed = seed; p.cfg.kind = "cfg";
    ParamSpec sp = spec_from_opts(opts, r);
    p.cfg.set("spec", sp.str());
    p.cfg.setu("kseed", mix64(opts.getu("keybase", 7) ^ 0xc07, seed));   // a fresh key per run: key-row statistics never count a key twice
    std::string only = opts.gets("ops", "");
    int nops = (int) opts.geti("nops", 5);
    static const char *kinds[] = {"reseed", "lwe", "tlwe", "tgsw", "gate", "keys", "keybits", "lwemix"};
    bool have_keys = false;
    for (int j = 0; j < nops; j++) {
        std::string k;
        int guard = 0;
        do k = kinds[r.below(8)]; while (guard++ < 100 && ((!only.empty() && only.find(k) == std::string::npos) || (k == "keys" && have_keys)));
        if (k == "keys") { if (have_keys) continue; have_keys = true; }   // the rows of one key enter the statistics once
        Op o; o.kind = "op"; o.set("k", k).setu("s", r.next());
        if (k == "reseed") o.seti("hist", (int) r.below(8)).seti("thread", (int) r.below(2)).seti("variant", (int) r.below(6));
        if (k == "lwe" || k == "tlwe" || k == "tgsw") o.seti("ai", (int) r.below(NALPHA)).seti("cnt", k == "lwe" ? 400 : k == "tlwe" ? 3 : 1).seti("n", (int) (k == "lwe" ? (r.bern(0.5) ? 630 : 1 + r.below(64)) : 0)).seti("rk", 1 + (int) r.below(2));
        if (k == "gate") o.seti("cnt", 1500);
        if (k == "lwemix") o.seti("ai", (int) r.below(NALPHA)).seti("ai2", (int) r.below(NALPHA)).seti("ai3", (int) r.below(NALPHA)).seti("cnt", 600).seti("n", (int) (1 + r.below(48))).seti("pat", (int) r.below(3));
        p.ops.push_back(o);
    }
    return p;
}

static void exec_rand(const Plan &p, RunResult &r) {
    ParamSpec sp = ParamSpec::parse(p.cfg.gets("spec"));
    KeyCtx *kc = nullptr;
    auto key = [&]() { if (!kc) kc = get_key(sp, p.cfg.getu("kseed")); return kc; };
    lib_seed(mix64(p.seed, 0x7a4d));
    for (size_t oi = 0; oi < p.ops.size() && !r.v.set; oi++) {
        const Op &o = p.ops[oi];
        std::string k = o.gets("k");
        Rng rr(o.getu("s"));
        if (k == "reseed") {
            uint64_t S = rr.next(); int variant = (int) o.geti("variant");
            uint64_t gen_before = 0; (void) gen_before;
            watch_begin();
            uint64_t h1 = produce(S, variant);
            std::string what; uint64_t wh = watch_end(&what);
            if (wh) r.v.raise("entropy-use", "C07.watchdog", fmt("key generation / encryption called %s (%llu calls)", what.c_str(), (unsigned long long) wh), (int) oi);
            // unrelated history: a seeded number (odd and even) of Gaussian and uniform draws through the public API
            int hist = (int) o.geti("hist");
            {
                LweParams *lp = new_LweParams(1 + (int) rr.below(5), 1e-4, 0.1); LweKey *lk = new_LweKey(lp); lweKeyGen(lk);
                LweSample *c = new_LweSample(lp);
                for (int i = 0; i < hist; i++) lweSymEncrypt(c, (int32_t) rr.next(), 1e-4, lk);
                if (hist & 4) { for (int i = 0; i < 1 + (hist & 3); i++) (void) gaussian32(0, 0.01); }
                delete_LweSample(c); delete_LweKey(lk); delete_LweParams(lp);
            }
            uint64_t h2;
            if (o.geti("thread")) {   // same seed on another thread
                ThreadArg a{S, variant, 0}; pthread_t th; pthread_create(&th, nullptr, produce_thread, &a); pthread_join(th, nullptr); h2 = a.out;
                r.probes.add("reseed_other_thread");
            } else h2 = produce(S, variant);
            if (h1 != h2) r.v.raise("reseed-differs", "C07.reseed", fmt("re-seeding with the same seed after a history of %d extra encryptions%s produced different keys/ciphertexts", hist, o.geti("thread") ? " (on another thread)" : ""), (int) oi);
            uint64_t h3 = produce(S + 1, variant);
            if (h3 == h1) r.v.raise("seeds-collide", "C07.seeds", "different seeds produced identical keys and ciphertexts", (int) oi);
            {   // seeds are word vectors: vectors that differ in order, length (zero-extended), multiplicity or by moving bits from one
                // word to another are different seeds and must give different keys (what one LWE key of 48 bits looks like under each)
                uint32_t a = (uint32_t) rr.next() | 1u, b = (uint32_t) rr.next() | 2u; if (a == b) b ^= 0x10u;
                std::vector<std::vector<uint32_t>> seeds = {{a, b}, {b, a}, {a}, {a, 0}, {0, a}, {a, a}, {b, b}, {a ^ b}, {a ^ b, 0}, {a, b, 0}, {a, b, a}, {a + b}};
                std::map<uint64_t, size_t> seen;
                for (size_t q = 0; q < seeds.size() && !r.v.set; q++) {
                    tfhe_random_generator_setSeed(seeds[q].data(), (int32_t) seeds[q].size());
                    LweParams *lp = new_LweParams(48, 1e-5, 0.1); LweKey *lk = new_LweKey(lp); lweKeyGen(lk);
                    LweSample *c = new_LweSample(lp); lweSymEncrypt(c, 777, 1e-5, lk);
                    Hash hh; hh.bytes(lk->key, 48 * 4); hh.bytes(c->a, 48 * 4); hh.bytes(&c->b, 4);
                    delete_LweSample(c); delete_LweKey(lk); delete_LweParams(lp);
                    auto ins = seen.emplace(hh.get(), q);
                    if (!ins.second) {
                        auto show = [](const std::vector<uint32_t> &v) { std::string t = "{"; for (size_t i = 0; i < v.size(); i++) t += (i ? "," : "") + std::to_string(v[i]); return t + "}"; };
                        r.v.raise("seeds-collide", "C07.seeds", "the different seed vectors " + show(seeds[ins.first->second]) + " and " + show(seeds[q]) + " produce the same key and ciphertext", (int) oi);
                    }
                }
                r.probes.add("structured_seed_vectors");
            }
            // one process-wide generator: seeding on this thread governs generation on any other thread ...
            lib_seed(S); uint64_t m1 = produce_noseed(variant);
            lib_seed(S); ThreadArg b1{S, variant, 0}; { pthread_t th; pthread_create(&th, nullptr, produce_noseed_thread, &b1); pthread_join(th, nullptr); }
            if (b1.out != m1) r.v.raise("reseed-differs", "C07.reseed-thread", "after seeding on one thread, key generation and encryption on another thread do not reproduce what the seeding thread produces from the same seed", (int) oi);
            // ... and two threads started one after the other (no re-seeding in between) must not produce the same keys / masks
            ThreadArg b2{S, variant, 0}; { pthread_t th; pthread_create(&th, nullptr, produce_noseed_thread, &b2); pthread_join(th, nullptr); }
            if (b2.out == b1.out) r.v.raise("not-fresh", "C07.fresh-threads", "two threads produced identical keys and ciphertexts without re-seeding: masks and keys are not fresh", (int) oi);
            r.probes.add("cross_thread_seed_checked");
            r.ev.u64(h1); r.ev.u64(h3);
            r.probes.add(fmt("reseed_hist_%s", (hist & 1) ? "odd" : "even"));
            lib_seed(mix64(p.seed, oi));
        } else if (k == "lwe") {
            double alpha = ALPHAS[o.geti("ai") % NALPHA]; int n = (int) o.geti("n", 16), cnt = (int) o.geti("cnt", 100);
            LweParams *lp = new_LweParams(n, alpha, 0.2); LweKey *lk = new_LweKey(lp); lweKeyGen(lk);
            LweSample *c = new_LweSample(lp);
            Acc acc; MaskAcc ma; uint64_t prevh = 0; int repeats = 0; int ones = 0;
            for (int i = 0; i < n; i++) { if (lk->key[i] != 0 && lk->key[i] != 1) r.v.raise("key-not-binary", "C07.keybits", fmt("LWE key coefficient %d is %d", i, lk->key[i]), (int) oi); ones += lk->key[i]; }
            r.stats["keybits.lwe.n"] += n; r.stats["keybits.lwe.ones"] += ones;
            double au = alpha * 4294967296.0;
            for (int i = 0; i < cnt; i++) {
                int32_t mu = (int32_t) rr.next();
                watch_begin(); lweSymEncrypt(c, mu, alpha, lk); std::string w; if (watch_end(&w)) r.v.raise("entropy-use", "C07.watchdog", "lweSymEncrypt called " + w, (int) oi);
                int32_t e = sdiff(obs::lwe_phase(c, lk->key, n), (uint32_t) mu);
                acc.add((double) e / au);
                if (std::fabs((double) e) > 12 * au + 2) r.v.raise("noise-outlier", "C07.outlier", fmt("fresh LWE sample requested with alpha=%.3g carries a phase error of %d units = %.1f sigma", alpha, e, std::fabs((double) e) / au), (int) oi);
                for (int j = 0; j < n; j++) ma.add((uint32_t) c->a[j]);
                uint64_t hh = hash_bytes(c->a, (size_t) n * 4); if (n >= 2 && hh == prevh) repeats++; prevh = hh;
                if (std::fabs(c->current_variance - alpha * alpha) > 1e-18 + 1e-9 * alpha * alpha) r.v.raise("variance-annotation", "C07.annotation", "lweSymEncrypt did not annotate the configured variance", (int) oi);
            }
            if (repeats) r.v.raise("mask-repeated", "C07.mask", fmt("%d consecutive LWE encryptions reused the same mask", repeats), (int) oi);
            put(r, fmt("z.lwe.%d", (int) (o.geti("ai") % NALPHA)), acc); ma.put(r, "mask.lwe");
            r.ev.u64(obs::hash_lwe(c, n));
            delete_LweSample(c); delete_LweKey(lk); delete_LweParams(lp);
        } else if (k == "lwemix") {
            // history: the requested noise level changes from one draw to the next (strict alternation, random order, odd-length
            // blocks) and single direct draws are interspersed: a sampler that carries state from one call into the next would
            // hand a sample the previous call's deviation.  Every sample is attributed to the level it was requested with.
            int n = (int) o.geti("n", 16), cnt = (int) o.geti("cnt", 600), pat = (int) o.geti("pat");
            int ais[3] = {(int) (o.geti("ai") % NALPHA), (int) (o.geti("ai2") % NALPHA), (int) (o.geti("ai3") % NALPHA)};
            LweParams *lp = new_LweParams(n, 1e-3, 0.2); LweKey *lk = new_LweKey(lp); lweKeyGen(lk);
            LweSample *c = new_LweSample(lp);
            Acc acc[3]; int w = 0, left = 0;
            for (int i = 0; i < cnt && !r.v.set; i++) {
                if (pat == 0) w = i % 2; else if (pat == 1) w = (int) rr.below(3); else { if (left == 0) { w = (w + 1 + (int) rr.below(2)) % 3; left = 1 + 2 * (int) rr.below(2); } left--; }
                double alpha = ALPHAS[ais[w]], au = alpha * 4294967296.0; int32_t e;
                if (rr.bern(0.15)) e = gaussian32(0, alpha);
                else { int32_t mu = (int32_t) rr.next(); lweSymEncrypt(c, mu, alpha, lk); e = sdiff(obs::lwe_phase(c, lk->key, n), (uint32_t) mu);
                       if (std::fabs(c->current_variance - alpha * alpha) > 1e-18 + 1e-9 * alpha * alpha) r.v.raise("variance-annotation", "C07.annotation", "lweSymEncrypt did not annotate the configured variance", (int) oi); }
                acc[w].add((double) e / au);
                // a single draw beyond 12 sigma (+ discretisation) has probability < 1e-32
                if (std::fabs((double) e) > 12 * au + 2) r.v.raise("noise-outlier", "C07.outlier", fmt("fresh sample requested with alpha=%.3g carries a phase error of %d units = %.1f sigma (draw %d of a sequence mixing the levels %.3g, %.3g, %.3g, pattern %d)", alpha, e, std::fabs((double) e) / au, i, ALPHAS[ais[0]], ALPHAS[ais[1]], ALPHAS[ais[2]], pat), (int) oi);
            }
            for (int q = 0; q < 3; q++) put(r, fmt("z.lwe.%d", ais[q]), acc[q]);
            r.probes.add("mixed_noise_level_sequences");
            r.ev.u64(obs::hash_lwe(c, n));
            delete_LweSample(c); delete_LweKey(lk); delete_LweParams(lp);
        } else if (k == "tlwe" || k == "tgsw") {
            double alpha = ALPHAS[o.geti("ai") % NALPHA]; int kk = (int) o.geti("rk", 1); const int N = 1024;
            TLweParams *tp = new_TLweParams(N, kk, alpha, 0.2); TGswParams *gp = new_TGswParams(2, 8, tp); TGswKey *gk = new_TGswKey(gp); tGswKeyGen(gk);
            std::vector<int32_t> S((size_t) kk * N); int ones = 0;
            for (int u = 0; u < kk; u++) for (int j = 0; j < N; j++) { int32_t b = gk->key[u].coefs[j]; S[(size_t) u * N + j] = b; ones += b; if (b != 0 && b != 1) r.v.raise("key-not-binary", "C07.keybits", "ring key coefficient not binary", (int) oi); }
            r.stats["keybits.ring.n"] += kk * N; r.stats["keybits.ring.ones"] += ones;
            double au = alpha * 4294967296.0;
            Acc acc; MaskAcc ma; std::vector<uint32_t> ph;
            int cnt = (int) o.geti("cnt", 1);
            for (int i = 0; i < cnt; i++) {
                if (k == "tlwe") {
                    TLweSample *c = new_TLweSample(tp); TorusPolynomial *m = new_TorusPolynomial(N);
                    for (int j = 0; j < N; j++) m->coefsT[j] = (int32_t) rr.next();
                    watch_begin(); tLweSymEncrypt(c, m, alpha, &gk->tlwe_key); std::string w; if (watch_end(&w)) r.v.raise("entropy-use", "C07.watchdog", "tLweSymEncrypt called " + w, (int) oi);
                    obs::tlwe_phase(ph, c, S.data(), N, kk);
                    for (int j = 0; j < N; j++) acc.add((double) sdiff(ph[(size_t) j], (uint32_t) m->coefsT[j]) / au);
                    for (int u = 0; u < kk; u++) for (int j = 0; j < N; j++) ma.add((uint32_t) c->a[u].coefsT[j]);
                    r.ev.u64(obs::hash_tlwe(c, N, kk));
                    delete_TLweSample(c); delete_TorusPolynomial(m);
                } else {
                    TGswSample *g = new_TGswSample(gp); int32_t msg = (int32_t) rr.range(-3, 3);
                    watch_begin(); tGswSymEncryptInt(g, msg, alpha, gk); std::string w; if (watch_end(&w)) r.v.raise("entropy-use", "C07.watchdog", "tGswSymEncryptInt called " + w, (int) oi);
                    for (int pi = 0; pi < gp->kpl; pi++) {
                        obs::tlwe_phase(ph, &g->all_sample[pi], S.data(), N, kk);
                        int u = pi / gp->l, q = pi % gp->l; uint32_t hq = 1u << (32 - (q + 1) * gp->Bgbit);
                        for (int j = 0; j < N; j++) {
                            uint32_t m_ = u < kk ? (uint32_t) (-(int64_t) msg * S[(size_t) u * N + j]) * hq : (j == 0 ? (uint32_t) msg * hq : 0);
                            acc.add((double) sdiff(ph[(size_t) j], m_) / au);
                        }
                        for (int v = 0; v < kk; v++) for (int j = 0; j < N; j += 3) ma.add((uint32_t) g->all_sample[pi].a[v].coefsT[j]);
                    }
                    delete_TGswSample(g);
                }
            }
            put(r, fmt("z.%s.%d", k.c_str(), (int) (o.geti("ai") % NALPHA)), acc); ma.put(r, "mask." + k);
            delete_TGswKey(gk); delete_TGswParams(gp); delete_TLweParams(tp);
        } else if (k == "gate") {
            KeyCtx *K = key();
            LweSample *c = new_gate_bootstrapping_ciphertext(K->params), *d = new_gate_bootstrapping_ciphertext(K->params);
            double alpha = K->params->in_out_params->alpha_min, au = alpha * 4294967296.0;
            Acc acc; int cnt = (int) o.geti("cnt", 100);
            for (int i = 0; i < cnt; i++) {
                int bit = (int) rr.below(2);
                bootsSymEncrypt(c, bit, K->sk); bootsSymEncrypt(d, bit, K->sk);
                if (obs::hash_lwe(c, K->n) == obs::hash_lwe(d, K->n)) r.v.raise("encryptions-equal", "C07.fresh", "two encryptions of the same bit are identical", (int) oi);
                int32_t e = sdiff(obs::lwe_phase(c, K->s.data(), K->n), (uint32_t) (bit ? T_1s8 : -T_1s8));
                if (au > 0) acc.add((double) e / au);
            }
            put(r, std::string("z.gate.") + sp.name + fmt(".%g", alpha), acc);
            delete_gate_bootstrapping_ciphertext(c); delete_gate_bootstrapping_ciphertext(d);
        } else if (k == "keys") {
            // every row of the generated key-switching and bootstrapping keys
            KeyCtx *K = key();
            watch_begin();   // (the key exists already; the watchdog brackets the statistics only)
            watch_end();
            K->compute_ks_noise(); K->compute_bk_noise();
            double aks = K->params->in_out_params->alpha_min * 4294967296.0, abk = K->params->tgsw_params->tlwe_params->alpha_min * 4294967296.0;
            Acc ks, bk; int64_t kssum = 0; uint64_t ksrows = 0;
            const int nin = K->k * K->N;
            for (int i = 0; i < nin; i++) for (int j = 0; j < K->t; j++) for (int h = 0; h < K->base; h++) {
                int32_t e = K->ks_noise[((size_t) i * K->t + j) * K->base + h];
                if (h == 0) {
                    const LweSample *row = &K->ck->bk->ks->ks[i][j][0];
                    bool zero = row->b == 0; for (int q = 0; q < K->n && zero; q++) zero = row->a[q] == 0;
                    if (!zero) r.v.raise("ks-h0-row", "C07.ks-h0", fmt("key-switching row (%d,%d,0) is not the trivial zero sample", i, j), (int) oi);
                    continue;
                }
                if (aks > 0) ks.add((double) e / aks);
                kssum += e; ksrows++;
            }
            // recentred: the noises sum to zero up to one rounding unit per row
            if ((uint64_t) std::llabs(kssum) > ksrows + 1)
                r.v.raise("ks-not-recentred", "C07.ks-recentred", fmt("key-switching noises sum to %lld units over %llu rows (recentring demands |sum| <= rows)", (long long) kssum, (unsigned long long) ksrows), (int) oi);
            if (aks == 0 && ksrows) { bool all0 = true; for (auto e : K->ks_noise) if (e) all0 = false; if (!all0) r.probes.add("ks_alpha0_nonzero_noise"); }
            if (abk > 0) for (size_t q = 0; q < K->bk_noise.size(); q++) bk.add((double) K->bk_noise[q] / abk);
            put(r, std::string("z.ksrow.") + sp.name + fmt(".%g", K->params->in_out_params->alpha_min), ks);
            put(r, std::string("z.bkrow.") + sp.name + fmt(".%g", K->params->tgsw_params->tlwe_params->alpha_min), bk);
            int ones = 0; for (auto b : K->s) { ones += b; if (b != 0 && b != 1) r.v.raise("key-not-binary", "C07.keybits", "LWE key of the key set is not binary", (int) oi); }
            r.stats["keybits.lwe.n"] += K->n; r.stats["keybits.lwe.ones"] += ones;
            ones = 0; for (auto b : K->S) { ones += b; if (b != 0 && b != 1) r.v.raise("key-not-binary", "C07.keybits", "ring key of the key set is not binary", (int) oi); }
            r.stats["keybits.ring.n"] += K->S.size(); r.stats["keybits.ring.ones"] += ones;
            // masks of key rows
            MaskAcc ma; const LweKeySwitchKey *kk = K->ck->bk->ks;
            for (int i = 0; i < std::min(nin, 64); i++) for (int j = 0; j < K->t; j++) for (int h = 1; h < K->base; h++) for (int q = 0; q < K->n; q++) ma.add((uint32_t) kk->ks[i][j][h].a[q]);
            ma.put(r, "mask.ksrow");
            r.probes.add("key_rows_analysed", ksrows + K->bk_noise.size() / (size_t) K->N);
        } else if (k == "keybits") {
            LweParams *lp = new_LweParams(1000, 0.1, 0.1); LweKey *lk = new_LweKey(lp); lweKeyGen(lk);
            int ones = 0; for (int i = 0; i < 1000; i++) { ones += lk->key[i]; if (lk->key[i] != 0 && lk->key[i] != 1) r.v.raise("key-not-binary", "C07.keybits", "LWE key not binary", (int) oi); }
            r.stats["keybits.lwe.n"] += 1000; r.stats["keybits.lwe.ones"] += ones;
            delete_LweKey(lk); delete_LweParams(lp);
        }
        r.steps++;
    }
    r.ev.u64(obs::hash_generator());
    Hash ch; ch.str(p.cfg.str()); for (auto &o : p.ops) ch.str(o.str());
    r.case_hash = ch.get(); r.nontrivial = !p.ops.empty();
    r.sample = fmt("spec=%s ops=%zu first=%s", sp.str().c_str(), p.ops.size(), p.ops.empty() ? "" : p.ops[0].str().c_str());
}
const Scenario SC_RAND = {"rand", gen_rand, exec_rand};
ScenarioReg reg_rand(&SC_RAND);

// ================================================================== enc (C03)
static Plan gen_enc(uint64_t seed, const Op &opts) {
    Rng r(seed);
    Plan p; p.scenario = "enc"; p.seed = seed; p.cfg.kind = "cfg";
    ParamSpec sp = spec_from_opts(opts, r);
    p.cfg.set("spec", sp.str());
    p.cfg.setu("kseed", mix64(opts.getu("keybase", 7), r.below((uint64_t) opts.geti("nkeys", 2))));
    int nops = (int) opts.geti("nops", 8);
    std::string only = opts.gets("ops", "");
    static const char *kinds[] = {"gate", "lwe", "tlweT", "tlwe", "tgsw", "trivial"};
    for (int j = 0; j < nops; j++) {
        std::string k;
        do k = kinds[r.below(6)]; while (!only.empty() && only.find(k) == std::string::npos);
        Op o; o.kind = "op"; o.set("k", k).setu("s", r.next());
        int M;
        switch (r.below(6)) { case 0: M = 2 + (int) r.below(63); break; case 1: M = 1 << (1 + (int) r.below(24)); break; case 2: M = 2 + (int) r.below(32766); break;
                              case 3: M = 2 + (int) r.below((1u << 24) - 1); break;    // large message spaces, mostly not powers of two (alpha = 1/(20 M) stays >= 12 units)
                              case 4: { static const int big[] = {50000, 65535, 65537, 100000, 1000003, (1 << 20) - 1, (1 << 20) + 1, (1 << 22) + 5, (1 << 24) - 1, 10000019}; M = big[r.below(10)]; break; }
                              default: { static const int ms[] = {2, 3, 4, 5, 6, 7, 8, 10, 12, 100, 1000, 2048, 4096, 32768}; M = ms[r.below(14)]; } }
        if (k == "tgsw") M = 1 << (1 + (int) r.below(8));   // power of two <= Bg (Bg = 2^8 .. 2^10 below)
        o.seti("M", M).seti("amax", (int) r.below(3)).seti("rk", 1 + (int) r.below(2)).seti("n", (int) (r.bern(0.3) ? 630 : 1 + r.below(40))).seti("wire", r.bern(0.2) ? 1 : 0);
        p.ops.push_back(o);
    }
    return p;
}

// noise level for message space M: amax mode 0 = admissible maximum M*alpha = 1/20, 1 = half of it, 2 = tiny
static double alpha_for(int M, int mode, double amp = 1.0) { double a = 1.0 / (20.0 * M * amp); return mode == 0 ? a : mode == 1 ? a / 2 : a / 1000; }
static uint32_t enc_msg(int m, int M) { return (uint32_t) (((unsigned __int128) (uint32_t) m << 32) / (unsigned) M); }   // floor(m*2^32/M): observer's own encoding

static bool close_to_grid(uint32_t got, int m, int M) {   // |got - m/M| <= 1 unit (the library's grid is the 63-bit interval grid)
    int32_t d = sdiff(got, enc_msg(m, M)); return d >= -2 && d <= 2;
}

static void exec_enc(const Plan &p, RunResult &r) {
    ParamSpec sp = ParamSpec::parse(p.cfg.gets("spec"));
    KeyCtx *kc = nullptr;
    lib_seed(mix64(p.seed, 0xe2c));
    for (size_t oi = 0; oi < p.ops.size() && !r.v.set; oi++) {
        const Op &o = p.ops[oi];
        std::string k = o.gets("k");
        Rng rr(o.getu("s"));
        int M = (int) o.geti("M", 8); int mode = (int) o.geti("amax");
        if (M < 2) M = 2;
        auto msgs = [&](std::vector<int> &out, int cap) { out.clear(); if (M <= 64) for (int m = 0; m < M; m++) out.push_back(m); else { out = {0, 1, M - 1, M / 2, M / 2 + 1, (M - 1) / 2}; while ((int) out.size() < cap) out.push_back((int) rr.below((uint64_t) M)); } };
        std::vector<int> ms;
        if (k == "gate") {
            if (!kc) kc = get_key(sp, p.cfg.getu("kseed"));
            LweSample *c = new_gate_bootstrapping_ciphertext(kc->params);
            for (int i = 0; i < 64 && !r.v.set; i++) {
                int bit = i & 1;
                bootsSymEncrypt(c, bit, kc->sk);
                if (o.geti("wire")) { Obj co; co.kind = K_GATECT; co.p = c; co.gbp = kc->params; co.owned = false; WriteLog log; WireCfg w = draw_wire(rr), rc = draw_wire(rr); export_via(co, w, &log); bool sf; Obj b = import_via(co, log.bytes, rc, nullptr, &sf); lweCopy(c, (LweSample *) b.p, kc->params->in_out_params); obj_free(b); r.faults.add("F-chunk"); }
                int dec = bootsSymDecrypt(c, kc->sk);
                if (dec != bit) r.v.raise("decrypt-wrong", "C03.gate", fmt("bootsSymDecrypt(bootsSymEncrypt(%d)) = %d", bit, dec), (int) oi);
            }
            delete_gate_bootstrapping_ciphertext(c);
            r.probes.add("enc_gate");
        } else if (k == "lwe" || k == "trivial") {
            int n = (int) o.geti("n", 10);
            double alpha = alpha_for(M, mode);
            LweParams *lp = new_LweParams(n, alpha, 0.25); LweKey *lk = new_LweKey(lp), *other = new_LweKey(lp); lweKeyGen(lk); lweKeyGen(other);
            LweSample *c = new_LweSample(lp);
            msgs(ms, 48);
            for (int m : ms) {
                Torus32 mu = modSwitchToTorus32(m, M);
                if (!close_to_grid((uint32_t) mu, m, M)) r.v.raise("encoding", "C03.encoding", fmt("modSwitchToTorus32(%d,%d)=%d is not m/M", m, M, mu), (int) oi);
                if (k == "lwe") {
                    lweSymEncrypt(c, mu, alpha, lk);
                    Torus32 d = lweSymDecrypt(c, lk, M);
                    if (d != mu) r.v.raise("decrypt-wrong", "C03.lwe", fmt("lweSymDecrypt: message %d/%d (alpha %.3g, n=%d) decrypts to torus %d instead of %d", m, M, alpha, n, d, mu), (int) oi);
                } else {
                    lweNoiselessTrivial(c, mu, lp);
                    Torus32 d1 = lweSymDecrypt(c, lk, M), d2 = lweSymDecrypt(c, other, M);
                    if (d1 != mu || d2 != mu) r.v.raise("decrypt-wrong", "C03.trivial", fmt("noiseless trivial LWE sample of %d/%d decrypts to %d / %d under two unrelated keys", m, M, d1, d2), (int) oi);
                }
                if (r.v.set) break;
            }
            r.probes.add(k == "lwe" ? "enc_lwe" : "enc_trivial_lwe");
            if (mode == 0) r.probes.add("noise_at_admissible_maximum");
            delete_LweSample(c); delete_LweKey(lk); delete_LweKey(other); delete_LweParams(lp);
        } else if (k == "tlweT" || k == "tlwe") {
            const int N = 1024; int kk = (int) o.geti("rk", 1);
            double alpha = alpha_for(M, mode);
            TLweParams *tp = new_TLweParams(N, kk, alpha, 0.25); TLweKey *key = new_TLweKey(tp), *other = new_TLweKey(tp); tLweKeyGen(key); tLweKeyGen(other);
            TLweSample *c = new_TLweSample(tp);
            if (k == "tlweT") {
                msgs(ms, 12);
                for (int m : ms) {
                    Torus32 mu = modSwitchToTorus32(m, M);
                    tLweSymEncryptT(c, mu, alpha, key);
                    Torus32 d = tLweSymDecryptT(c, key, M);
                    if (d != mu) { r.v.raise("decrypt-wrong", "C03.tlweT", fmt("tLweSymDecryptT: message %d/%d (alpha %.3g, k=%d) decrypts to %d instead of %d", m, M, alpha, kk, d, mu), (int) oi); break; }
                }
                r.probes.add("enc_tlwe_constant");
            } else {
                TorusPolynomial *msg = new_TorusPolynomial(N), *dec = new_TorusPolynomial(N);
                std::vector<int> mm((size_t) N);
                for (int j = 0; j < N; j++) { mm[(size_t) j] = M <= 64 ? j % M : (int) rr.below((uint64_t) M); msg->coefsT[j] = modSwitchToTorus32(mm[(size_t) j], M); }
                bool triv = rr.bern(0.25);
                if (triv) tLweNoiselessTrivial(c, msg, tp); else tLweSymEncrypt(c, msg, alpha, key);
                tLweSymDecrypt(dec, c, triv && rr.bern(0.5) ? other : key, M);
                for (int j = 0; j < N; j++) if (dec->coefsT[j] != msg->coefsT[j]) { r.v.raise("decrypt-wrong", "C03.tlwe", fmt("tLweSymDecrypt (%s, M=%d, alpha %.3g, k=%d): coefficient %d message %d/%d decrypts to %d instead of %d", triv ? "noiseless trivial" : "fresh", M, alpha, kk, j, mm[(size_t) j], M, dec->coefsT[j], msg->coefsT[j]), (int) oi); break; }
                r.probes.add(triv ? "enc_trivial_tlwe" : "enc_tlwe_polynomial");
                delete_TorusPolynomial(msg); delete_TorusPolynomial(dec);
            }
            if (M & (M - 1)) r.probes.add("msize_not_power_of_two");
            if (M > 50000) r.probes.add("msize_above_50000");
            delete_TLweSample(c); delete_TLweKey(key); delete_TLweKey(other); delete_TLweParams(tp);
        } else if (k == "tgsw") {
            const int N = 1024; int kk = (int) o.geti("rk", 1);
            static const int lB[][2] = {{2, 10}, {3, 8}, {4, 8}, {2, 8}, {3, 10}};
            int q = (int) rr.below(5); int l = lB[q][0], Bgbit = lB[q][1];
            while (M > (1 << Bgbit)) M >>= 1;
            // decryption multiplies the row noise by the digit Bg/M of 1/M: alpha <= 1/(20*Bg)
            double alpha = alpha_for(1 << Bgbit, mode);
            TLweParams *tp = new_TLweParams(N, kk, alpha, 0.25); TGswParams *gp = new_TGswParams(l, Bgbit, tp); TGswKey *gk = new_TGswKey(gp); tGswKeyGen(gk);
            TGswSample *g = new_TGswSample(gp);
            IntPolynomial *msg = new_IntPolynomial(N), *dec = new_IntPolynomial(N);
            for (int j = 0; j < N; j++) msg->coefs[j] = (j < M) ? j : (int) rr.below((uint64_t) M);
            tGswSymEncrypt(g, msg, alpha, gk);
            tGswSymDecrypt(dec, g, gk, M);
            for (int j = 0; j < N; j++) if (dec->coefs[j] != msg->coefs[j]) { r.v.raise("decrypt-wrong", "C03.tgsw", fmt("tGswSymDecrypt (M=%d, l=%d, Bgbit=%d, alpha %.3g, k=%d): coefficient %d message %d decrypts to %d", M, l, Bgbit, alpha, kk, j, msg->coefs[j], dec->coefs[j]), (int) oi); break; }
            r.probes.add("enc_tgsw");
            delete_IntPolynomial(msg); delete_IntPolynomial(dec); delete_TGswSample(g); delete_TGswKey(gk); delete_TGswParams(gp); delete_TLweParams(tp);
        }
        r.steps++;
        r.ev.u64(obs::hash_generator());
    }
    Hash ch; ch.str(p.cfg.str()); for (auto &o : p.ops) ch.str(o.str());
    r.case_hash = ch.get(); r.nontrivial = !p.ops.empty();
    r.sample = fmt("ops=%zu first=%s", p.ops.size(), p.ops.empty() ? "" : p.ops[0].str().c_str());
}
const Scenario SC_ENC = {"enc", gen_enc, exec_enc};
ScenarioReg reg_enc(&SC_ENC);

} // namespace
} // namespace sim
