// S2: transport scenarios over the simulated store / wire.
//   io        C05: export/import round trips on both transports, sequences in one stream, byte idempotence
//   cloudkey  C17: write recorder on the cloud key export (size, prefix relation, no secret encodings), import side
//   iofault   C18: crash points of the writer (truncation), EIO, mistyped input, corrupted titles/tags
#include <map>
#include "scen.h"
#include <cmath>
#include <algorithm>
#include <numeric_functions.h>
#include <polynomials_arithmetic.h>

namespace sim {
namespace {

// ------------------------------------------------------------ small-object context
struct IoCtx {
    LweParams *lp = nullptr; TLweParams *tp = nullptr; TGswParams *gp = nullptr;
    std::vector<Obj> owned;
    ~IoCtx() {
        for (auto &o : owned) obj_free(o);
        if (gp) delete_TGswParams(gp);
        if (tp) delete_TLweParams(tp);
        if (lp) delete_LweParams(lp);
    }
};

static const double ALPHAS[] = {0.1, 0.3, 0.5, 0.012467, 3.0517578125e-05 /*2^-15*/, 2.98023223876953125e-08 /*2^-25*/, 7.18e-9, 2.44e-5,
                                1e-12, 1e-9, 1.0 / 3, 0.25, 9.313225746154785e-10 /*2^-30*/, 0.0, 6.103515625e-05,
                                // tiny positive noise levels whose exact text is long (17 significant digits, three-digit exponent).  Stored
                                // fields only: the scenario never samples with these.  (Negative, subnormal and huge values were tried and
                                // round-trip on this tree, but they are not noise levels and a change that rejects them would not break C05.)
                                1.2345678901234567e-100, 1.4285714285714286e-301, 2.2250738585072014e-308};
static const int NALPHA = sizeof ALPHAS / sizeof *ALPHAS;

static int32_t content_val(Rng &r, int content) {
    switch (content) {
        case 1: { static const int32_t ex[] = {INT32_MIN, INT32_MAX, 0, -1, 1, INT32_MIN + 1, 0x0a0a0a0a, 0x0d0a0d0a, 0x2d2d2d2d, 42, 84, 168};
                  return ex[r.below(12)]; }
        case 2: return 0;
        default: return (int32_t) r.next();
    }
}

// builds an object of the given kind; ctx params must exist. content: 0 random, 1 extremes, 2 zeros
static Obj make_obj(int kind, IoCtx &cx, KeyCtx *kc, Rng &r, int content) {
    Obj o; o.kind = kind; o.lwep = cx.lp; o.tlwep = cx.tp; o.tgswp = cx.gp; o.gbp = kc ? kc->params : nullptr;
    const int n = cx.lp->n, N = cx.tp->N, k = cx.tp->k;
    auto dv = [&]() { return content == 2 ? 0.0 : (content == 1 ? ALPHAS[r.below(NALPHA)] : r.unit() * 1e-3); };
    switch (kind) {
        case K_LWEPARAMS: o.p = cx.lp; o.owned = false; break;
        case K_TLWEPARAMS: o.p = cx.tp; o.owned = false; break;
        case K_TGSWPARAMS: o.p = cx.gp; o.owned = false; break;
        case K_LWESAMPLE: {
            LweSample *s = new_LweSample(cx.lp);
            for (int i = 0; i < n; i++) s->a[i] = content_val(r, content);
            s->b = content_val(r, content); s->current_variance = dv(); o.p = s; break;
        }
        case K_GATECT: {
            LweSample *s = new_gate_bootstrapping_ciphertext(kc->params);
            for (int i = 0; i < kc->n; i++) s->a[i] = content_val(r, content);
            s->b = content_val(r, content); s->current_variance = dv(); o.p = s; break;
        }
        case K_LWEKEY: {
            LweKey *key = new_LweKey(cx.lp);
            for (int i = 0; i < n; i++) key->key[i] = content == 1 ? content_val(r, 1) : (content == 2 ? 0 : (int32_t) r.below(2));
            o.p = key; break;
        }
        case K_TLWESAMPLE: {
            TLweSample *s = new_TLweSample(cx.tp);
            for (int u = 0; u <= k; u++) for (int j = 0; j < N; j++) s->a[u].coefsT[j] = content_val(r, content);
            s->current_variance = dv(); o.p = s; break;
        }
        case K_TLWEKEY: {
            TLweKey *key = new_TLweKey(cx.tp);
            for (int u = 0; u < k; u++) for (int j = 0; j < N; j++) key->key[u].coefs[j] = content == 1 ? content_val(r, 1) : (int32_t) r.below(2);
            o.p = key; break;
        }
        case K_TGSWSAMPLE: {
            TGswSample *s = new_TGswSample(cx.gp);
            for (int p = 0; p < cx.gp->kpl; p++) {
                for (int u = 0; u <= k; u++) for (int j = 0; j < N; j++) s->all_sample[p].a[u].coefsT[j] = content_val(r, content);
                s->all_sample[p].current_variance = dv();
            }
            o.p = s; break;
        }
        case K_TGSWKEY: {
            TGswKey *key = new_TGswKey(cx.gp);
            for (int u = 0; u < k; u++) for (int j = 0; j < N; j++) key->key[u].coefs[j] = content == 1 ? content_val(r, 1) : (int32_t) r.below(2);
            o.p = key; break;
        }
        case K_KSKEY: {
            int nin = 1 + (int) r.below(6), t = 1 + (int) r.below(4), bb = 1 + (int) r.below(3);
            LweKeySwitchKey *ks = new_LweKeySwitchKey(nin, t, bb, cx.lp);
            for (int i = 0; i < nin * t * (1 << bb); i++) {
                LweSample *s = &ks->ks0_raw[i];
                for (int j = 0; j < n; j++) s->a[j] = content_val(r, content);
                s->b = content_val(r, content);
                s->current_variance = content == 0 ? r.unit() * 1e-6 : dv();   // rows with different advisory variances
            }
            o.p = ks; break;
        }
        case K_BKKEY: o.p = (void *) kc->ck->bk; o.owned = false; break;
        case K_GBPARAMS: o.p = kc->params; o.owned = false; break;
        case K_CLOUDKEY: o.p = (void *) kc->ck; o.owned = false; break;
        case K_SECRETKEY: o.p = kc->sk; o.owned = false; break;
    }
    return o;
}

static bool needs_key(int kind) { return kind == K_BKKEY || kind == K_GBPARAMS || kind == K_CLOUDKEY || kind == K_SECRETKEY || kind == K_GATECT; }

static void make_ctx(IoCtx &cx, const Op &cfg) {
    cx.lp = new_LweParams((int) cfg.geti("n", 5), cfg.getd("amin", 0.1), cfg.getd("amax", 0.3));
    cx.tp = new_TLweParams((int) cfg.geti("N", 8), (int) cfg.geti("k", 1), cfg.getd("tamin", 0.1), cfg.getd("tamax", 0.3));
    cx.gp = new_TGswParams((int) cfg.geti("l", 2), (int) cfg.geti("Bgbit", 4), cx.tp);
}

static void gen_ctx_cfg(Plan &p, Rng &r, const Op &opts) {
    static const int ns[] = {1, 2, 3, 5, 7, 8, 9, 16, 33, 100, 500};
    static const int Ns[] = {1, 2, 4, 8, 16, 64, 256, 1024};
    p.cfg.seti("n", ns[r.below(11)]).seti("N", Ns[r.below(8)]).seti("k", 1 + (int) r.below(3));
    static const int lB[][2] = {{2, 4}, {3, 7}, {2, 10}, {1, 16}, {4, 8}, {8, 4}, {16, 2}, {1, 1}, {32, 1}};
    int i = (int) r.below(9);
    p.cfg.seti("l", lB[i][0]).seti("Bgbit", lB[i][1]);
    p.cfg.setd("amin", ALPHAS[r.below(NALPHA)]).setd("amax", ALPHAS[r.below(NALPHA)]);
    p.cfg.setd("tamin", ALPHAS[r.below(NALPHA)]).setd("tamax", ALPHAS[r.below(NALPHA)]);
    for (const char *kk : {"n", "N", "k", "l", "Bgbit"}) if (opts.has(kk)) p.cfg.seti(kk, opts.geti(kk));
    if (opts.has("alpha")) { double a = opts.getd("alpha"); p.cfg.setd("amin", a).setd("amax", a).setd("tamin", a).setd("tamax", a); }
}

// ================================================================== io (C05)
static Plan gen_io(uint64_t seed, const Op &opts) {
    Rng r(seed);
    Plan p; p.scenario = "io"; p.seed = seed; p.cfg.kind = "cfg";
    ParamSpec sp = spec_from_opts(opts, r);
    p.cfg.set("spec", sp.str());
    p.cfg.setu("kseed", mix64(opts.getu("keybase", 7), r.below((uint64_t) opts.geti("nkeys", 2))));
    gen_ctx_cfg(p, r, opts);
    p.cfg.setu("wseed", r.next()).setu("rseed", r.next()).setu("w2seed", r.next());
    // second key context: the same parameter set with exactly ONE field changed (objects of both contexts share the stream)
    p.cfg.seti("vary", sp.n > 100 ? 0 : 1 + (int) r.below(6));
    int maxobj = (int) opts.geti("maxobj", 12);
    int m = 1 + (int) r.below((uint64_t) maxobj);
    bool big = opts.geti("big", 1) != 0;
    int only = opts.has("kind") ? kind_by_name(opts.gets("kind")) : -1;
    for (int i = 0; i < m; i++) {
        int kind;
        do kind = (int) r.below(K_NKINDS); while (!big && (kind == K_BKKEY || kind == K_CLOUDKEY || kind == K_SECRETKEY));
        if (sp.n > 100 && (kind == K_BKKEY || kind == K_CLOUDKEY || kind == K_SECRETKEY) && i > 0) kind = K_GBPARAMS;   // one 100 MB object per run
        if (only >= 0) kind = only;
        Op o; o.kind = "op"; o.set("k", "obj").set("kind", kind_name(kind)).seti("content", (int) r.below(3)).setu("oseed", r.next()).seti("ctx", (int) r.below(2));
        p.ops.push_back(o);
    }
    return p;
}

static ParamSpec vary_spec(ParamSpec sp, int vary) {
    switch (vary) {
        case 1: { int tb = sp.t * sp.basebit; sp.t = sp.t == 8 ? 5 : 8; sp.basebit = sp.basebit == 2 ? 3 : 2; if (sp.t * sp.basebit > 31) { sp.t = 4; sp.basebit = 2; } (void) tb; break; }
        case 2: sp.n = sp.n == 5 ? 6 : 5; break;
        case 3: if (sp.l == 2 && sp.Bgbit == 10) { sp.l = 3; } else { sp.l = 2; sp.Bgbit = 10; } break;
        case 4: sp.a_ks = sp.a_ks == 1e-6 ? 1e-7 : 1e-6; break;
        case 5: sp.a_bk = sp.a_bk == 1e-9 ? 1e-10 : 1e-9; break;
        case 6: sp.k = sp.k == 1 ? 2 : 1; break;
        default: break;
    }
    return sp;
}

struct ImpArgs { const Obj *like; FILE *f; std::istream *is; Obj out; };
static void do_import(void *v) {
    ImpArgs *a = (ImpArgs *) v;
    a->out = a->f ? obj_import_file(*a->like, a->f) : obj_import_stream(*a->like, *a->is);
}

static void exec_io(const Plan &p, RunResult &r) {
    ParamSpec sp = ParamSpec::parse(p.cfg.gets("spec"));
    bool anykey = false;
    for (auto &o : p.ops) if (needs_key(kind_by_name(o.gets("kind")))) anykey = true;
    KeyCtx *kc = anykey ? get_key(sp, p.cfg.getu("kseed")) : nullptr;
    int vary = (int) p.cfg.geti("vary", 0);
    KeyCtx *kc2 = (anykey && vary) ? get_key(vary_spec(sp, vary), p.cfg.getu("kseed") ^ 0x2222) : kc;
    if (kc2 != kc) r.probes.add(fmt("two_param_sets_differing_in_field_%d", vary));
    IoCtx cx; make_ctx(cx, p.cfg);
    lib_seed(mix64(p.seed, 0x696f));
    Rng wr(p.cfg.getu("wseed")), rr(p.cfg.getu("rseed")), w2(p.cfg.getu("w2seed"));
    WireCfg wc = draw_wire(wr), rc = draw_wire(rr), wc2 = draw_wire(w2, 1 - wc.transport);
    bool huge = kc && sp.n > 100;
    if (huge) { wc.wmode = 0; wc.wbuf = 65536; wc2.wbuf = 65536; wc2.wmode = 0; rc.rbuf = 65536; if (rc.rmax && rc.rmax < 4096) rc.rmax = 65536; }
    // the advisory per-row variances of generated key material are all equal: make them differ (largest value on a late row) so that
    // "stored once, comes back as the common maximum" is exercised on generated keys of every size; restored at the end of the run
    struct VarFix { double *p; double old; };
    std::vector<VarFix> varfix;
    auto bump = [&](KeyCtx *K) {
        if (!K) return;
        LweKeySwitchKey *kk = K->ck->bk->ks; int rows = kk->n * kk->t * kk->base;
        Rng vr(mix64(p.seed, 0x7a2));
        for (int q = 0; q < 3; q++) { int i = rows - 1 - (int) vr.below((uint64_t) std::max(1, rows / 3)); double *v = &kk->ks0_raw[i].current_variance; varfix.push_back({v, *v}); *v = *v * (1.5 + q) + 1e-12 * (q + 1); }
        LweBootstrappingKey *bk = (LweBootstrappingKey *) K->ck->bk; int brows = bk->in_out_params->n * bk->bk_params->kpl;
        for (int q = 0; q < 2; q++) { int i = brows - 1 - (int) vr.below((uint64_t) std::max(1, brows / 3)); double *v = &bk->bk[i / bk->bk_params->kpl].all_sample[i % bk->bk_params->kpl].current_variance; varfix.push_back({v, *v}); *v = *v * (2.0 + q) + 1e-13; }
    };
    bump(kc); if (kc2 != kc) bump(kc2);
    std::vector<Obj> objs;
    for (auto &o : p.ops) {
        int kind = kind_by_name(o.gets("kind"));
        if (kind < 0) continue;
        Rng orng(o.getu("oseed"));
        objs.push_back(make_obj(kind, cx, o.geti("ctx") ? kc2 : kc, orng, (int) o.geti("content")));
    }
    // 1. export the whole sequence into one stream on transport A, and again on transport B
    WriteLog A, Bl;
    auto export_all = [&](const WireCfg &c, WriteLog *log, const std::vector<Obj> &seq) {
        if (c.transport == 0) { FILE *f = open_file_writer(log, c); for (auto &o : seq) obj_export_file(o, f); fclose(f); }
        else { StoreOutBuf sb(log, c.wbuf); std::ostream os(&sb); for (auto &o : seq) obj_export_stream(o, os); os.flush(); sb.flush_buf(); }
    };
    export_all(wc, &A, objs);
    export_all(wc2, &Bl, objs);
    r.faults.add(wc.transport ? "F-chunk-stream" : "F-chunk-file");
    r.ev.bytes(A.bytes.data(), A.bytes.size());
    // 2.-4. for a written stream: import the sequence back in order through one reader, compare field for field, check that nothing
    //        is left, re-export on the transport that wrote it and compare the bytes
    auto roundtrip = [&](const WriteLog &Wl, const WireCfg &wcfg, const WireCfg &rcfg) {
        std::vector<Obj> back;
        ReadState rs; rs.data = &Wl.bytes; rs.c = rcfg;
        FILE *f = nullptr; StoreInBuf *sb = nullptr; std::istream *is = nullptr;
        if (rcfg.transport == 0) f = open_file_reader(&rs); else { sb = new StoreInBuf(&rs); is = new std::istream(sb); }
        for (size_t i = 0; i < objs.size() && !r.v.set; i++) {
            ImpArgs a{&objs[i], f, is, Obj()};
            Outcome oc = guarded_call(do_import, &a);
            if (oc != O_RETURNED) { r.v.raise("import-terminated", "C05.import", fmt("import of a complete valid %s (object %zu of the stream) ended with %s", kind_name(objs[i].kind), i, outcome_name(oc)), (int) i); break; }
            if (is && (is->fail() || is->bad())) { r.v.raise("import-failed-stream", "C05.import", fmt("stream failed while importing valid %s (object %zu)", kind_name(objs[i].kind), i), (int) i); obj_free(a.out); break; }
            back.push_back(a.out);
            std::string why;
            if (!obj_equal(objs[i], a.out, &why))
                r.v.raise("roundtrip-differs", "C05.fields", fmt("%s (object %zu of %zu, transport %s->%s): %s", kind_name(objs[i].kind), i, objs.size(), wcfg.transport ? "stream" : "FILE", rcfg.transport ? "stream" : "FILE", why.c_str()), (int) i);
        }
        if (!r.v.set) {
            bool eof = f ? (fgetc(f) == EOF) : (is->peek() == std::char_traits<char>::eof());
            if (!eof) r.v.raise("trailing-bytes", "C05.boundaries", "bytes left in the stream after importing every object of the sequence");
        }
        if (f) fclose(f);
        if (is) { delete is; delete sb; }
        if (rs.short_reads) r.faults.add("F-short", rs.short_reads);
        if (!r.v.set && back.size() == objs.size()) {
            WriteLog C; export_all(wcfg, &C, back);
            if (C.bytes != Wl.bytes) {
                size_t d = 0; while (d < Wl.bytes.size() && d < C.bytes.size() && Wl.bytes[d] == C.bytes[d]) d++;
                r.v.raise("reexport-differs", "C05.idempotent", fmt("re-export of the imported sequence differs at byte %zu", d));
            }
        }
        for (auto &o : back) obj_free(o);
    };
    roundtrip(A, wc, rc);
    r.probes.add(fmt("objects_%s", objs.size() > 1 ? "sequence" : "single"));
    if (A.bytes != Bl.bytes && !r.v.set) {
        // the two transports need not produce the same bytes (the property speaks of each of them): the second stream then has to
        // stand on its own, read back through its own transport
        r.probes.add("transports_write_different_bytes");
        WireCfg rc2 = rc; rc2.transport = wc2.transport;
        roundtrip(Bl, wc2, rc2);
    }
    uint64_t kinds_mask = 0;
    for (auto &o : objs) { kinds_mask |= 1ull << o.kind; r.probes.add(std::string("kind_") + kind_name(o.kind)); }
    for (auto &o : objs) obj_free(o);
    for (auto it = varfix.rbegin(); it != varfix.rend(); ++it) *it->p = it->old;
    Hash ch; ch.str(p.cfg.str()); for (auto &o : p.ops) ch.str(o.gets("kind") + o.gets("content"));
    r.case_hash = ch.get(); r.nontrivial = true; r.steps = objs.size();
    r.sample = fmt("%zu objects [%s...] writer{%s} reader{%s} bytes=%zu", objs.size(), p.ops.empty() ? "" : p.ops[0].gets("kind").c_str(), wc.str().c_str(), rc.str().c_str(), A.bytes.size());
}
const Scenario SC_IO = {"io", gen_io, exec_io};
ScenarioReg reg_io(&SC_IO);

// ================================================================== cloudkey (C17)
static Plan gen_cloudkey(uint64_t seed, const Op &opts) {
    Rng r(seed);
    Plan p; p.scenario = "cloudkey"; p.seed = seed; p.cfg.kind = "cfg";
    ParamSpec sp = spec_from_opts(opts, r);
    p.cfg.set("spec", sp.str());
    p.cfg.setu("kseed", mix64(opts.getu("keybase", 7), r.below((uint64_t) opts.geti("nkeys", 4))));
    p.cfg.setu("wseed", r.next()).setu("rseed", r.next());
    // overlap: a second writer exports secret material while the cloud key writer is still open (0 none, 1 secret key set of the
    // same keys, 2 LWE key + ring key, 3 secret key set of another key); the cloud key file is closed last
    // pre: secret material is exported BEFORE the cloud key in the same process/thread (the tutorial's order: secret.key, then cloud.key):
    //      0 nothing, 1 secret key set of the same keys, 2 LWE key + ring key, 3 secret key set of another key
    // overlap 4..6: the same three kinds of secret material are exported by ANOTHER THREAD while this one exports the cloud key
    //      (two simulated tasks under the seeded scheduler, every write call reaching a store is a scheduling point)
    Op o; o.kind = "op"; o.set("k", "export").seti("transport", (int) r.below(2)).seti("overlap", r.bern(0.6) ? 1 + (int) r.below(6) : 0).seti("pre", r.bern(0.6) ? 1 + (int) r.below(3) : 0); p.ops.push_back(o);
    if (o.geti("overlap") >= 4) {
        sched_to_plan(p, r, 2);
        p.cfg.setu("sched_sites", p.cfg.getu("sched_sites") | (1u << Y_APP));
        if (r.bern(0.5)) p.cfg.setd("sched_p", 1.0);
    }
    return p;
}

static bool contains(const std::string &hay, const std::string &needle) { return !needle.empty() && hay.find(needle) != std::string::npos; }
static bool degenerate(const std::string &s) { for (char c : s) if (c != s[0]) return false; return true; }

static void exec_cloudkey(const Plan &p, RunResult &r) {
    ParamSpec sp = ParamSpec::parse(p.cfg.gets("spec"));
    KeyCtx *kc = get_key(sp, p.cfg.getu("kseed"));
    Rng wr(p.cfg.getu("wseed")), rr(p.cfg.getu("rseed"));
    int tr = p.ops.empty() ? 0 : (int) p.ops[0].geti("transport");
    WireCfg wc = draw_wire(wr, tr);
    if (sp.n > 100) { wc.wmode = 0; wc.wbuf = 1 << 16; }
    Obj ck; ck.kind = K_CLOUDKEY; ck.p = (void *) kc->ck; ck.owned = false;
    Obj sk; sk.kind = K_SECRETKEY; sk.p = kc->sk; sk.owned = false;
    Obj gp; gp.kind = K_GBPARAMS; gp.p = kc->params; gp.owned = false;
    Obj ks; ks.kind = K_KSKEY; ks.p = kc->ck->bk->ks; ks.owned = false;
    Obj lp; lp.kind = K_LWEPARAMS; lp.p = (void *) kc->params->in_out_params; lp.owned = false;
    WriteLog C, S, G, K, L;
    int overlap = p.ops.empty() ? 0 : (int) p.ops[0].geti("overlap");
    int pre = p.ops.empty() ? 0 : (int) p.ops[0].geti("pre");
    if (pre) {
        // history: the client has already written its secret material (same transport, same thread)
        KeyCtx *k2 = pre == 3 ? get_key(sp, p.cfg.getu("kseed") ^ 0x99) : kc;
        WriteLog junk; WireCfg w0 = draw_wire(wr, tr); if (sp.n > 100) { w0.wmode = 0; w0.wbuf = 1 << 16; }
        Obj o1; o1.kind = pre == 2 ? K_LWEKEY : K_SECRETKEY; o1.p = pre == 2 ? (void *) k2->sk->lwe_key : (void *) k2->sk; o1.owned = false;
        export_via(o1, w0, &junk);
        if (pre == 2) { Obj o2; o2.kind = K_TGSWKEY; o2.p = (void *) k2->sk->tgsw_key; o2.owned = false; WriteLog j2; export_via(o2, w0, &j2); }
        r.faults.add("history-secret-exported-first");
        r.probes.add(fmt("pre_%d", pre));
    }
    SchedResult sr; bool conc = overlap >= 4;
    if (!overlap) export_via(ck, wc, &C);   // write recorder: every byte of every write call
    else if (conc) {
        // history: another thread exports secret material (own stream, own objects) while this one exports the cloud key
        WriteLog other, other2; WireCfg wc2 = draw_wire(wr, tr);
        if (sp.n > 100) { wc2.wmode = 0; wc2.wbuf = 1 << 12; wc.wbuf = 1 << 12; }
        int om = overlap - 3;
        KeyCtx *k2 = om == 3 ? get_key(sp, p.cfg.getu("kseed") ^ 0x77) : kc;
        Obj o1; o1.kind = om == 2 ? K_LWEKEY : K_SECRETKEY; o1.p = om == 2 ? (void *) k2->sk->lwe_key : (void *) k2->sk; o1.owned = false;
        Obj o2; o2.kind = K_TGSWKEY; o2.p = (void *) k2->sk->tgsw_key; o2.owned = false;
        std::vector<std::function<void()>> tasks;
        tasks.push_back([&]() { export_via(ck, wc, &C); });
        tasks.push_back([&]() { export_via(o1, wc2, &other); if (om == 2) export_via(o2, wc2, &other2); });
        sr = sched_run(sched_from_plan(p), tasks);
        r.steps = sr.steps; r.switches = sr.switches; r.sched_hash = sr.sched_hash;
        for (auto &kv : sr.site_hits) r.probes.add("yield_" + kv.first, kv.second);
        r.faults.add("history-concurrent-secret-export");
        r.probes.add(fmt("concurrent_%d", om));
        if (sr.switches) r.probes.add("exports_interleaved");
    } else {
        // history: two writers open at the same time (a client writing both key files, closing them at the end)
        WriteLog other; WireCfg wc2 = draw_wire(wr, tr);
        if (sp.n > 100) { wc2.wmode = 0; wc2.wbuf = 1 << 16; }
        KeyCtx *k2 = overlap == 3 ? get_key(sp, p.cfg.getu("kseed") ^ 0x77) : kc;
        Obj o1; o1.kind = overlap == 2 ? K_LWEKEY : K_SECRETKEY; o1.p = overlap == 2 ? (void *) k2->sk->lwe_key : (void *) k2->sk; o1.owned = false;
        Obj o2; o2.kind = K_TGSWKEY; o2.p = (void *) k2->sk->tgsw_key; o2.owned = false;
        if (tr == 0) {
            FILE *fa = open_file_writer(&C, wc);
            obj_export_file(ck, fa);
            FILE *fb = open_file_writer(&other, wc2);
            obj_export_file(o1, fb);
            if (overlap == 2) obj_export_file(o2, fb);
            fclose(fb);
            fclose(fa);
        } else {
            StoreOutBuf sa(&C, wc.wbuf); std::ostream osa(&sa);
            obj_export_stream(ck, osa);
            { StoreOutBuf sb(&other, wc2.wbuf); std::ostream osb(&sb); obj_export_stream(o1, osb); if (overlap == 2) obj_export_stream(o2, osb); osb.flush(); sb.flush_buf(); }
            osa.flush(); sa.flush_buf();
        }
        r.faults.add("history-overlapping-writers");
        r.probes.add(fmt("overlap_%d", overlap));
    }
    WireCfg big; big.transport = 1 - tr; big.wbuf = 1 << 16;
    export_via(sk, big, &S); export_via(gp, big, &G); export_via(ks, big, &K); export_via(lp, big, &L);
    r.faults.add(wc.transport ? "F-chunk-stream" : "F-chunk-file");
    r.ev.u64(hash_bytes(C.bytes.data(), C.bytes.size()));
    uint64_t total = 0; for (auto c : C.calls) total += c;
    if (total != C.bytes.size()) r.v.raise("recorder", "C17.recorder", "write calls do not add up");
    // --- exact size
    const uint64_t n = kc->n, N = kc->N, k = kc->k, t = kc->t, base = kc->base, kpl = kc->kpl;
    uint64_t ks_bin = 4 + 8 + N * k * t * base * (n + 1) * 4;
    uint64_t bk_bin = 4 + 8 + n * kpl * (k + 1) * N * 4;
    // LWEKSPARAMS text section length: from the stand-alone key-switching key export (LweParams + section + binary)
    if (K.bytes.size() < L.bytes.size() + ks_bin) { r.v.raise("size", "C17.size", "key-switching key export shorter than its binary part"); return; }
    uint64_t ksparams_text = K.bytes.size() - L.bytes.size() - ks_bin;
    uint64_t expect = G.bytes.size() + ksparams_text + ks_bin + bk_bin;
    if (C.bytes.size() != expect)
        r.v.raise("size", "C17.size", fmt("cloud key export is %zu bytes, parameters determine %llu (params text %zu + LWEKSPARAMS %llu + ks %llu + bk %llu)", C.bytes.size(), (unsigned long long) expect, G.bytes.size(), (unsigned long long) ksparams_text, (unsigned long long) ks_bin, (unsigned long long) bk_bin));
    // --- the binary part must be exactly the public key material held in memory: the observer serialises the key-switching and
    //     bootstrapping rows itself (tag, common maximum variance, coefficients) and compares byte for byte, so that stray bytes in
    //     fields a reader ignores or overwrites (e.g. the masks of the unused h = 0 rows) are seen
    if (!r.v.set && C.bytes.size() == expect) {
        std::string bin; bin.reserve((size_t) (ks_bin + bk_bin));
        auto put = [&](const void *q, size_t nb) { bin.append((const char *) q, nb); };
        const LweKeySwitchKey *kk = kc->ck->bk->ks;
        int32_t tag = 200; double mv = -1;
        for (int i = 0; i < kk->n * kk->t * kk->base; i++) mv = std::max(mv, kk->ks0_raw[i].current_variance);
        put(&tag, 4); put(&mv, 8);
        for (int i = 0; i < kk->n; i++) for (int j = 0; j < kk->t; j++) for (int h = 0; h < kk->base; h++) { const LweSample &smp = kk->ks[i][j][h]; put(smp.a, (size_t) n * 4); put(&smp.b, 4); }
        tag = 201; mv = -1;
        const LweBootstrappingKey *bk = kc->ck->bk;
        for (uint64_t i = 0; i < n; i++) for (uint64_t q = 0; q < kpl; q++) mv = std::max(mv, bk->bk[i].all_sample[q].current_variance);
        put(&tag, 4); put(&mv, 8);
        for (uint64_t i = 0; i < n; i++) for (uint64_t q = 0; q < kpl; q++) for (uint64_t u = 0; u <= k; u++) put(bk->bk[i].all_sample[q].a[u].coefsT, (size_t) N * 4);
        size_t text_len = (size_t) (G.bytes.size() + ksparams_text);
        if (bin.size() != C.bytes.size() - text_len || memcmp(bin.data(), C.bytes.data() + text_len, bin.size()) != 0) {
            size_t d = 0; while (d < bin.size() && bin[d] == C.bytes[text_len + d]) d++;
            r.v.raise("not-public-material", "C17.public-only", fmt("binary part of the cloud key export differs from the in-memory key-switching / bootstrapping rows at byte %zu of the binary part (offset %zu of the export)", d, text_len + d));
        }
        r.probes.add("binary_part_compared_with_observer_serialisation");
        // the h = 0 key-switching rows are public constants: the trivial zero sample
        for (int i = 0; i < kk->n && !r.v.set; i++) for (int j = 0; j < kk->t; j++) { const LweSample &z = kk->ks[i][j][0]; bool zero = z.b == 0; for (uint64_t q = 0; q < n && zero; q++) zero = z.a[q] == 0; if (!zero) { r.v.raise("not-public-material", "C17.h0-rows", "a key-switching row for digit 0 is not the trivial zero sample"); break; } }
    }
    // --- a row whose mask is constant (all zero: a "noiseless trivial" sample) carries its message in the clear: for the key-switching rows
    //     (h >= 1) that message is a ring-key coefficient times a public constant, for the bootstrapping rows an LWE key bit.  A fresh
    //     uniform mask is constant with probability 2^-32(n-1).
    if (!r.v.set) {
        const LweKeySwitchKey *kk = kc->ck->bk->ks;
        if (n >= 2) for (int i = 0; i < kk->n && !r.v.set; i++) for (int j = 0; j < kk->t && !r.v.set; j++) for (int h = 1; h < kk->base; h++) {
            const LweSample &smp = kk->ks[i][j][h]; bool constant = true; for (uint64_t q = 1; q < n && constant; q++) constant = smp.a[q] == smp.a[0];
            if (constant) { r.v.raise("secret-in-cloud-export", "C17.trivial-row", fmt("key-switching row (%d,%d,%d) has a constant mask (%d): its body carries ring-key coefficient %d times a public constant in the clear", i, j, h, smp.a[0], i)); break; }
        }
        const LweBootstrappingKey *bk = kc->ck->bk;
        for (uint64_t i = 0; i < n && !r.v.set; i++) for (uint64_t q = 0; q < kpl && !r.v.set; q++) for (uint64_t u = 0; u < k; u++) {
            const int32_t *cf = bk->bk[i].all_sample[q].a[u].coefsT; bool constant = true; for (uint64_t jj = 1; jj < N && constant; jj++) constant = cf[jj] == cf[0];
            if (constant) { r.v.raise("secret-in-cloud-export", "C17.trivial-row", fmt("bootstrapping-key row (%llu,%llu) has a constant mask polynomial: LWE key bit %llu is readable from its body", (unsigned long long) i, (unsigned long long) q, (unsigned long long) i)); break; }
        }
        r.probes.add("key_rows_checked_for_trivial_masks");
        // --- two rows encrypted under the SAME mask: their difference is (0, m1 - m2 + noise), i.e. a ring-key coefficient (key-switching
        //     rows) or an LWE key bit (bootstrapping rows) times a public constant in the clear.  Fresh uniform masks of n >= 2 words
        //     coincide with probability 2^-32n per pair (seeded change C17-h drew one mask per (i,j) block).
        if (n >= 2 && !r.v.set) {
            std::map<uint64_t, const LweSample *> seen;
            for (int i = 0; i < kk->n && !r.v.set; i++) for (int j = 0; j < kk->t && !r.v.set; j++) for (int h = 1; h < kk->base; h++) {
                const LweSample &smp = kk->ks[i][j][h];
                auto ins = seen.emplace(hash_bytes(smp.a, (size_t) n * 4), &smp);
                if (!ins.second && memcmp(ins.first->second->a, smp.a, (size_t) n * 4) == 0) {
                    r.v.raise("secret-in-cloud-export", "C17.shared-mask", fmt("key-switching row (%d,%d,%d) has the same mask as an earlier row: the difference of the two bodies carries ring-key coefficients times public constants in the clear", i, j, h)); break; }
            }
            std::map<uint64_t, const int32_t *> seenp;
            for (uint64_t i = 0; i < n && !r.v.set; i++) for (uint64_t q = 0; q < kpl && !r.v.set; q++) for (uint64_t u = 0; u < k; u++) {
                const int32_t *cf = bk->bk[i].all_sample[q].a[u].coefsT;
                auto ins = seenp.emplace(hash_bytes(cf, (size_t) N * 4), cf);
                if (!ins.second && memcmp(ins.first->second, cf, (size_t) N * 4) == 0) {
                    r.v.raise("secret-in-cloud-export", "C17.shared-mask", fmt("bootstrapping-key row (%llu,%llu) mask polynomial %llu equals an earlier mask polynomial", (unsigned long long) i, (unsigned long long) q, (unsigned long long) u)); break; }
            }
            r.probes.add("key_rows_checked_for_shared_masks");
        }
    }
    // --- strict prefix of the secret key set export
    if (!(S.bytes.size() > C.bytes.size() && memcmp(S.bytes.data(), C.bytes.data(), C.bytes.size()) == 0))
        r.v.raise("prefix", "C17.prefix", fmt("cloud export (%zu bytes) is not a strict prefix of the secret key set export (%zu bytes)", C.bytes.size(), S.bytes.size()));
    // --- no secret key encoding anywhere in the bytes written
    struct Pat { std::string name, bytes; };
    std::vector<Pat> pats;
    auto add_patterns = [&](const std::string &who, const std::vector<int32_t> &key, size_t win) {
        for (size_t off = 0; off + win <= key.size(); off += std::max<size_t>(win, 1)) {
            std::string i32((const char *) &key[off], win * 4), by, asc, bits_l((win + 7) / 8, '\0'), bits_m((win + 7) / 8, '\0');
            for (size_t j = 0; j < win; j++) {
                by.push_back((char) key[off + j]); asc.push_back(key[off + j] ? '1' : '0');
                if (key[off + j]) { bits_l[j / 8] |= (char) (1 << (j % 8)); bits_m[j / 8] |= (char) (0x80 >> (j % 8)); }
            }
            if (i32.size() >= 16) pats.push_back({who + ":int32[" + std::to_string(off) + "]", i32});
            if (by.size() >= 16) pats.push_back({who + ":bytes[" + std::to_string(off) + "]", by});
            if (asc.size() >= 16) pats.push_back({who + ":ascii[" + std::to_string(off) + "]", asc});
            if (bits_l.size() >= 16) { pats.push_back({who + ":bits-lsb[" + std::to_string(off) + "]", bits_l}); pats.push_back({who + ":bits-msb[" + std::to_string(off) + "]", bits_m}); }
            if (off > 4 * win) break;
        }
    };
    add_patterns("lwe-key", kc->s, kc->s.size());                       // the whole LWE key
    if (kc->s.size() >= 64) add_patterns("lwe-key-window", kc->s, 32);   // and windows of it
    add_patterns("ring-key", kc->S, 128);
    add_patterns("ring-key-short", kc->S, 24);   // short prefixes/windows (24 coefficients: 96 bytes as int32)
    uint64_t searched = 0;
    for (auto &pt : pats) {
        if (degenerate(pt.bytes)) continue;
        searched++;
        if (contains(C.bytes, pt.bytes)) { r.v.raise("secret-in-cloud-export", "C17.secret", fmt("cloud key export contains the %s encoding of the secret key (%zu bytes)", pt.name.c_str(), pt.bytes.size())); break; }
        // sanity of the search itself: the int32 encoding IS present in the secret key set export
    }
    r.probes.add("secret_patterns_searched", searched);
    {
        std::string i32((const char *) kc->s.data(), kc->s.size() * 4);
        if (i32.size() >= 16 && !contains(S.bytes, i32)) r.v.raise("oracle-selftest", "C17.selftest", "the LWE key int32 encoding was not found in the SECRET key set export: search is broken");
        else r.probes.add("search_selftest_ok");
    }
    // --- import side: needs nothing but the cloud bytes, produces a key that evaluates
    if (!r.v.set) {
        WireCfg rc = draw_wire(rr);
        if (sp.n > 100) { rc.rmax = 0; rc.rbuf = 1 << 16; }
        bool sf = false;
        Obj imp = import_via(ck, C.bytes, rc, nullptr, &sf);
        if (sf || !imp.p) r.v.raise("import", "C17.import", "cloud key export does not import");
        else {
            const TFheGateBootstrappingCloudKeySet *c2 = (const TFheGateBootstrappingCloudKeySet *) imp.p;
            lib_seed(mix64(p.seed, 77));
            LweSample *a = new_gate_bootstrapping_ciphertext(kc->params), *b = new_gate_bootstrapping_ciphertext(kc->params), *o = new_gate_bootstrapping_ciphertext(c2->params);
            for (int va = 0; va < 2 && !r.v.set; va++) for (int vb = 0; vb < 2; vb++) {
                bootsSymEncrypt(a, va, kc->sk); bootsSymEncrypt(b, vb, kc->sk);
                bootsNAND(o, a, b, c2);
                if (bootsSymDecrypt(o, kc->sk) != !(va && vb)) { r.v.raise("import", "C17.import-eval", "gate under the imported cloud key decrypts wrongly"); break; }
            }
            delete_gate_bootstrapping_ciphertext(a); delete_gate_bootstrapping_ciphertext(b); delete_gate_bootstrapping_ciphertext(o);
            obj_free(imp);
        }
    }
    if (conc && r.v.set && !p.explicit_sched) { Plan q = p; q.explicit_sched = true; q.sw = sr.trace; r.explicit_plan = q.str(); }
    Hash ch; ch.str(p.cfg.gets("spec")); ch.u64(p.cfg.getu("kseed")); ch.u64((uint64_t) tr); ch.u64(p.cfg.getu("wseed")); ch.u64(r.sched_hash);
    r.case_hash = ch.get(); r.nontrivial = true; if (!conc) r.steps = 1;
    r.sample = fmt("spec=%s transport=%s writes=%zu bytes=%zu patterns=%llu", sp.str().c_str(), tr ? "stream" : "FILE", C.calls.size(), C.bytes.size(), (unsigned long long) searched);
}
const Scenario SC_CK = {"cloudkey", gen_cloudkey, exec_cloudkey};
ScenarioReg reg_ck(&SC_CK);

// ================================================================== iofault (C18)
// one run = one object, a list of fault attempts against its export
static std::vector<std::pair<size_t, size_t>> title_ranges(const std::string &bytes, size_t text_limit) {
    // byte ranges of the title words inside "-----BEGIN X-----" / "-----END X-----" lines
    std::vector<std::pair<size_t, size_t>> out;
    size_t pos = 0;
    while (pos < text_limit) {
        size_t b = bytes.find("-----", pos);
        if (b == std::string::npos || b >= text_limit) break;
        size_t e = bytes.find('\n', b);
        if (e == std::string::npos) break;
        std::string line = bytes.substr(b, e - b);
        size_t off = line.rfind("-----");
        if (line.compare(0, 11, "-----BEGIN ") == 0 && off > 11) out.emplace_back(b + 11, b + off);
        else if (line.compare(0, 9, "-----END ") == 0 && off > 9) out.emplace_back(b + 9, b + off);
        pos = e + 1;
    }
    return out;
}

static Plan gen_iofault(uint64_t seed, const Op &opts) {
    Rng r(seed);
    Plan p; p.scenario = "iofault"; p.seed = seed; p.cfg.kind = "cfg";
    ParamSpec sp = spec_from_opts(opts, r);
    p.cfg.set("spec", sp.str());
    p.cfg.setu("kseed", mix64(opts.getu("keybase", 7), 0));
    gen_ctx_cfg(p, r, opts);
    if (opts.has("ctxseed")) { Rng r2(opts.getu("ctxseed")); gen_ctx_cfg(p, r2, opts); }   // fixed object across runs (exhaustive sweeps)
    int kind = opts.has("kind") ? kind_by_name(opts.gets("kind")) : (int) r.below(K_NKINDS);
    p.cfg.set("kind", kind_name(kind)).seti("content", 0).setu("oseed", opts.getu("oseed", r.next()));
    std::string mode = opts.gets("fmode", "mix");
    p.cfg.set("fmode", mode);
    if (mode == "sweep") {
        // exhaustive truncation sweep: offsets [first, first+count) of the export, both transports, plus EIO on FILE*
        uint64_t chunk = opts.getu("chunk", 2048);
        p.cfg.setu("first", opts.getu("first", opts.getu("run_index", 0) * chunk)).setu("count", chunk);
    } else {
        int na = (int) opts.geti("attempts", 40);
        for (int i = 0; i < na; i++) {
            Op o; o.kind = "op";
            int f = (int) r.below(12);
            // no read-error (EIO) fault: the property quantifies over prefixes and mistyped input only, and a read error inside a
            // text section makes the FILE* parser spin forever (feof() stays false) - observed, recorded in DESIGN.md, not judged
            const char *fk = f < 5 ? "trunc" : f < 8 ? "flip" : f < 10 ? "subst" : "retitle";
            o.set("k", fk).seti("transport", (int) r.below(2)).setu("at", r.next()).seti("val", (int) r.below(6)).seti("as", (int) r.below(K_NKINDS)).setu("rseed", r.next());
            o.seti("boundary", r.bern(0.5) ? 1 : 0);
            p.ops.push_back(o);
        }
    }
    return p;
}

struct Attempt { const Obj *like; const std::string *bytes; WireCfg rc; Obj out; bool stream_failed; ReadState rs; };
static void do_attempt(void *v) {
    Attempt *a = (Attempt *) v;
    a->out = import_via(*a->like, *a->bytes, a->rc, nullptr, &a->stream_failed, &a->rs);
}

// returns true when the attempt's outcome is acceptable for faulty input
static void judge_attempt(RunResult &r, const Obj &orig, const Obj &like, const std::string &bytes, const WireCfg &rc, const std::string &what,
                          bool may_equal, int opi) {
    Attempt a{&like, &bytes, rc, Obj(), false, ReadState()};
    uintptr_t fa = 0;
    std::streambuf *old_cerr = std::cerr.rdbuf(nullptr);   // the parser reports skipped lines on cerr: keep worker logs small
    Outcome oc = guarded_call(do_attempt, &a, &fa);
    std::cerr.rdbuf(old_cerr); std::cerr.clear();
    r.probes.add(std::string("outcome_") + outcome_name(oc) + (oc == O_RETURNED ? (a.stream_failed ? "_failed_stream" : "_clean") : ""));
    // the event log records the outcome CLASS the property distinguishes (refused / wild access / returned clean).  Which way an
    // import is refused may legitimately depend on stack garbage: a type tag of which a truncated stream delivered one byte is
    // compared with three uninitialised bytes (abort) or passes and the next read fails (failed stream state) - seen as a 20 %
    // ASLR-dependent difference of one attempt's outcome in the thorough tier; both outcomes refuse the input.
    int ocl = oc == O_WILDSEGV ? 2 : (oc == O_RETURNED && !(rc.transport == 1 && a.stream_failed)) ? 1 : 0;
    r.ev.u64((uint64_t) ocl);
    if (getenv("DSIM_TRACE")) fprintf(stderr, "attempt %llu op %d: %s -> %s%s (%s)\n", (unsigned long long) r.steps, opi, what.c_str(), outcome_name(oc), a.stream_failed ? " failed-stream" : "", rc.str().c_str());
    r.steps++;
    if (oc == O_WILDSEGV) { r.v.raise("import-wild-access", "C18.oob", fmt("%s: import faulted at address %#lx while parsing", what.c_str(), (unsigned long) fa), opi); return; }
    if (oc != O_RETURNED) return;                 // process would have terminated: acceptable
    if (rc.transport == 1 && a.stream_failed) { obj_free(a.out); return; }   // failed stream state: acceptable
    // returned normally with a clean stream (or through FILE*): only a complete, correct object is acceptable
    std::string why;
    bool eq = may_equal && like.kind == orig.kind && a.out.p && obj_equal(orig, a.out, &why);
    if (!eq)
        r.v.raise("accepted-silently", "C18.silent", fmt("%s (%s, %s): import returned normally%s with %s", what.c_str(), kind_name(like.kind), rc.transport ? "stream" : "FILE",
                                                       rc.transport ? " and a clean stream" : "", may_equal ? ("an object that differs from the original: " + why).c_str() : "an object although the input was not of the requested type"), opi);
    else r.probes.add("accepted_complete_object");
    // a returned object may be partially built: do not free it through the typed API unless it is equal
    if (eq) obj_free(a.out);
}

static void exec_iofault(const Plan &p, RunResult &r) {
    ParamSpec sp = ParamSpec::parse(p.cfg.gets("spec"));
    int kind = kind_by_name(p.cfg.gets("kind"));
    if (kind < 0) return;
    KeyCtx *kc = get_key(sp, p.cfg.getu("kseed"));
    IoCtx cx; make_ctx(cx, p.cfg);
    lib_seed(mix64(p.seed, 0x696f66));
    Rng orng(p.cfg.getu("oseed"));
    Obj orig = make_obj(kind, cx, kc, orng, (int) p.cfg.geti("content"));
    WriteLog W; WireCfg wc; wc.transport = 1; wc.wbuf = 1 << 16;
    export_via(orig, wc, &W);
    const std::string &full = W.bytes;
    // text part = everything up to the last "-----\n" (binary tags/arrays follow)
    size_t text_limit = 0;
    { size_t q = full.rfind("-----\n"); if (q != std::string::npos && full.compare(0, 5, "-----") == 0) text_limit = q + 6; }
    std::string mode = p.cfg.gets("fmode");
    Hash fh;
    if (mode == "sweep") {
        uint64_t first = p.cfg.getu("first"), count = p.cfg.getu("count");
        for (uint64_t off = first; off < first + count && off < full.size() && !r.v.set; off++) {
            for (int tr = 0; tr < 2 && !r.v.set; tr++) {
                WireCfg rc; rc.transport = tr; rc.trunc_at = (int64_t) off; rc.rbuf = 4096;
                judge_attempt(r, orig, orig, full, rc, fmt("F-trunc at byte %llu of %zu", (unsigned long long) off, full.size()), true, -1);
                r.faults.add("F-trunc");
            }
        }
        fh.u64(first); fh.u64(count);
        r.stats["sweep.bytes"] = (double) full.size();
    } else {
        auto titles = title_ranges(full, text_limit);
        // offsets of every binary type tag (composite objects have several sections after the text part)
        std::vector<size_t> tags;
        if (full.size() >= text_limit + 4 && text_limit < full.size()) tags.push_back(text_limit);
        if (kind == K_TGSWSAMPLE) { size_t row = 4 + (size_t) (cx.tp->k + 1) * cx.tp->N * 4 + 8; for (int q = 0; q < cx.gp->kpl; q++) tags.push_back(4 + (size_t) q * row); }
        if (kind == K_BKKEY || kind == K_CLOUDKEY || kind == K_SECRETKEY) {
            size_t ksbin = 4 + 8 + (size_t) kc->k * kc->N * kc->t * kc->base * (kc->n + 1) * 4;
            size_t bkbin = 4 + 8 + (size_t) kc->n * kc->kpl * (kc->k + 1) * kc->N * 4;
            tags.push_back(text_limit + ksbin);                                   // bootstrapping key content
            if (kind == K_SECRETKEY) { tags.push_back(text_limit + ksbin + bkbin); tags.push_back(text_limit + ksbin + bkbin + 4 + (size_t) kc->n * 4); }   // LWE key, ring key
        }
        for (auto &t : tags) if (t + 4 > full.size()) t = text_limit;
        // interesting offsets: section/array boundaries
        std::vector<size_t> bounds = {0, full.size() - 1, text_limit};
        for (size_t q = full.find('\n'); q != std::string::npos && q < text_limit; q = full.find('\n', q + 1)) bounds.push_back(q + 1);
        for (size_t pw = 1; pw < full.size(); pw <<= 1) bounds.push_back(pw);
        for (size_t oi = 0; oi < p.ops.size() && !r.v.set; oi++) {
            const Op &o = p.ops[oi];
            std::string k = o.gets("k");
            Rng rr(o.getu("rseed"));
            WireCfg rc = draw_wire(rr, (int) o.geti("transport"));
            if (full.size() > (1 << 20)) { rc.rmax = 0; rc.rbuf = 1 << 16; }
            uint64_t at = o.getu("at");
            if (k == "trunc") {
                size_t off;
                if (o.geti("boundary")) { size_t b = bounds[at % bounds.size()]; int64_t d = (int64_t) ((at >> 20) % 17) - 8; off = (size_t) std::max<int64_t>(0, std::min<int64_t>((int64_t) full.size() - 1, (int64_t) b + d)); }
                else off = (size_t) (at % full.size());
                rc.trunc_at = (int64_t) off; r.faults.add("F-trunc");
                if (rc.rmax) r.faults.add("F-short");
                judge_attempt(r, orig, orig, full, rc, fmt("F-%s at byte %zu of %zu", k.c_str(), off, full.size()), true, (int) oi);
                fh.u64(off);
            } else if (k == "flip") {
                // corrupt one byte of a title word or of a binary type tag
                std::string mod = full;
                size_t pos; bool ok = false;
                bool tag = (at & 1) || titles.empty();
                if (tag && !tags.empty()) { pos = tags[(at >> 3) % tags.size()] + (at >> 1) % 4; ok = true; r.probes.add(fmt("tag_section_%zu", (size_t) ((at >> 3) % tags.size()))); }
                else if (!titles.empty()) { auto &t = titles[(at >> 1) % titles.size()]; pos = t.first + (at >> 9) % (t.second - t.first); ok = true; }
                if (!ok) continue;
                unsigned char x = (unsigned char) mod[pos], y;
                switch (o.geti("val")) { case 0: y = x ^ 1; break; case 1: y = x ^ 0x80; break; case 2: y = 0; break; case 3: y = '\n'; break; case 4: y = '\r'; break; default: y = (unsigned char) (at >> 24); }
                if (y == x) y = x ^ 2;
                mod[pos] = (char) y;
                r.faults.add((tag && !tags.empty()) ? "F-flip-tag" : "F-flip-title");
                judge_attempt(r, orig, orig, mod, rc, fmt("F-flip byte %zu (%s) %#x->%#x", pos, (tag && !tags.empty()) ? "type tag" : "title", x, y), false, (int) oi);
                fh.u64(pos); fh.u64(y);
            } else if (k == "retitle") {
                // a section title rewritten CONSISTENTLY in its BEGIN and END lines (every line carrying that word): the section is
                // well formed but is not of the requested type any more (letter case, transposition, one other letter)
                if (titles.empty()) continue;
                auto &t0 = titles[(at >> 1) % titles.size()];
                std::string word = full.substr(t0.first, t0.second - t0.first), nw = word;
                size_t li = (size_t) ((at >> 9) % word.size());
                auto togg = [](char c) { return (char) (isalpha((unsigned char) c) ? (c ^ 0x20) : c); };
                switch (o.geti("val")) {
                    case 0: for (auto &c : nw) c = (char) tolower((unsigned char) c); break;
                    case 1: for (auto &c : nw) c = (char) toupper((unsigned char) c); break;
                    case 2: nw[li] = togg(nw[li]); break;
                    case 3: if (word.size() > 1) { size_t a = li % (word.size() - 1); std::swap(nw[a], nw[a + 1]); } break;
                    case 4: nw[li] = (char) (isalpha((unsigned char) nw[li]) ? ((nw[li] & 0x20) | ('A' + ((nw[li] & 0x1f) % 26))) : 'X'); break;
                    default: nw[0] = togg(nw[0]);
                }
                if (nw == word) for (auto &c : nw) c = togg(c);
                if (nw == word) continue;
                std::string mod = full; int nrew = 0;
                for (auto &t : titles) if (t.second - t.first == word.size() && full.compare(t.first, word.size(), word) == 0) { mod.replace(t.first, word.size(), nw); nrew++; }
                r.faults.add("F-retitle");
                judge_attempt(r, orig, orig, mod, rc, fmt("F-retitle %s -> %s in %d BEGIN/END lines", word.c_str(), nw.c_str(), nrew), false, (int) oi);
                fh.str(nw);
            } else if (k == "subst") {
                // bytes of this object delivered to the importer of another type whose leading title/tag differs
                int as = (int) o.geti("as");
                if (as == kind) continue;
                Rng o2(o.getu("at"));
                Obj like = make_obj(as, cx, kc, o2, 2);
                WriteLog L2; export_via(like, wc, &L2);
                // leading section title or tag must differ (the property's precondition)
                size_t l1 = full.find('\n'), l2 = L2.bytes.find('\n');
                bool text1 = full.compare(0, 5, "-----") == 0, text2 = L2.bytes.compare(0, 5, "-----") == 0;
                bool differs = text1 != text2 || (text1 ? full.substr(0, l1) != L2.bytes.substr(0, l2) : memcmp(full.data(), L2.bytes.data(), 4) != 0);
                if (differs) {
                    r.faults.add("F-subst");
                    judge_attempt(r, orig, like, full, rc, fmt("F-subst %s bytes fed to the %s importer", kind_name(kind), kind_name(as)), false, (int) oi);
                    fh.u64((uint64_t) as);
                } else r.probes.add("subst_same_leading_section_skipped");
                obj_free(like);
            }
        }
    }
    obj_free(orig);
    Hash ch; ch.str(p.cfg.str()); ch.u64(fh.get());
    r.case_hash = ch.get(); r.nontrivial = !r.faults.m.empty();
    r.sample = fmt("kind=%s bytes=%zu text=%zu mode=%s attempts=%llu", kind_name(kind), full.size(), text_limit, mode.c_str(), (unsigned long long) r.steps);
}
const Scenario SC_IOF = {"iofault", gen_iofault, exec_iofault};
ScenarioReg reg_iof(&SC_IOF);

} // namespace
} // namespace sim
