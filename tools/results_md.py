#!/usr/bin/env python3
"""seeded/RESULTS.md from the try_seeded.sh logs (seeded/RESULTS-pass*.txt) and the seeded/*/meta.json files"""
import glob, json, os, re
V = os.path.dirname(os.path.dirname(os.path.abspath(__file__)))
rows = {}
for f in sorted(glob.glob(os.path.join(V, "seeded", "RESULTS-pass*.txt"))):
    for line in open(f):
        m = re.match(r"SEEDED (\S+) check=(\S+) rc=(\d+) violations=(\d+) secs=(\d+) :: ?(.*)", line)
        if m:
            rows[(m.group(1), m.group(2))] = (int(m.group(3)), int(m.group(4)), int(m.group(5)), m.group(6).strip(), os.path.basename(f))
out = ["# Seeded changes and the checks that catch them", "",
       "Each change was produced by a sub-agent that saw only the property text, confirmed by tools/validate_mutant.sh (5x115 tests pass in optim and debug on a fresh worktree + patch; the agent's demonstration fails with the patch and passes without), and tried with tools/try_seeded.sh (quick tier, scratch worktree). Later rows supersede earlier ones for the same (change, check).", "",
       "| change | property | what it is | needs | check | result | first violation reported |", "|---|---|---|---|---|---|---|"]
for d in sorted(glob.glob(os.path.join(V, "seeded", "C*-*"))):
    sid = os.path.basename(d)
    try:
        meta = json.load(open(os.path.join(d, "meta.json")))
    except Exception:
        meta = {}
    summ = (meta.get("summary") or "").replace("|", "/").replace("\n", " ")[:260]
    need = (meta.get("what_it_needs_to_manifest") or "").replace("|", "/").replace("\n", " ")[:200]
    mine = [(k, v) for k, v in rows.items() if k[0] == sid]
    if not mine:
        out.append("| %s | %s | %s | %s | - | not yet tried | |" % (sid, sid.split("-")[0], summ, need))
    for (s_, chk), (rc, nv, secs, first, src) in sorted(mine):
        res = "CAUGHT (%d replays, %ds)" % (nv, secs) if rc == 1 and nv > 0 else ("no verdict (exit 2)" if rc == 2 else "missed")
        out.append("| %s | %s | %s | %s | %s | %s | %s |" % (sid, sid.split("-")[0], summ, need, chk, res, first.replace("|", "/")[:220]))
open(os.path.join(V, "seeded", "RESULTS.md"), "w").write("\n".join(out) + "\n")
print("\n".join(out[-40:]))
