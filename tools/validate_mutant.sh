#!/bin/bash
# Confirms a seeded change delivered by a sub-agent in a scratch worktree:
#   tools/validate_mutant.sh <worktree> <seeded-id>
# 1. the worktree (patch applied) builds (optim+debug, -Werror) and passes the 5x115 tests
# 2. mutant/demo.sh fails on the patched worktree and passes on a clean checkout of /repo HEAD
# 3. the patch applies to /repo HEAD (git apply --check)
# On success copies patch.diff, demo.*, meta.json to /verif/seeded/<seeded-id>/ and appends what was run to meta.json.
set -u
WT=$1; ID=$2
VERIF=$(cd "$(dirname "$0")/.." && pwd)
LOG=/tmp/validate-$ID.log
: > "$LOG"
say() { echo "$@" | tee -a "$LOG"; }
[ -f "$WT/mutant/patch.diff" ] || { say "no patch.diff"; exit 2; }
# a FRESH worktree of /repo HEAD with nothing but the delivered patch applied (the agent's own tree is not trusted:
# worktrees share one git stash and agents have swapped changes through it)
PATCHED=$(mktemp -d /tmp/patched-$ID.XXXX)
git -C /repo worktree add -q --detach "$PATCHED" HEAD >> "$LOG" 2>&1
( cd "$PATCHED" && git apply "$WT/mutant/patch.diff" ) >> "$LOG" 2>&1 || { say "patch does not apply to /repo HEAD"; git -C /repo worktree remove --force "$PATCHED"; exit 1; }
rm -rf "$PATCHED/src/test/googletest"; cp -r /repo/src/test/googletest "$PATCHED/src/test/googletest"
say "== baseline tests on a fresh worktree + patch"
"$VERIF/tools/baseline_off.sh" "$PATCHED" >> "$LOG" 2>&1; t_rc=$?
grep BASELINE "$LOG" | tail -2
say "tests rc=$t_rc"
say "== demo on the fresh worktree + patch (must fail)"
( cd "$WT" && timeout 2400 bash mutant/demo.sh "$PATCHED" ) >> "$LOG" 2>&1; d1=$?
say "demo(patched) rc=$d1"
git -C /repo worktree remove --force "$PATCHED" >> "$LOG" 2>&1
say "== demo on a clean checkout of /repo HEAD (must pass)"
CLEAN=$(mktemp -d /tmp/clean-$ID.XXXX)
git -C /repo worktree add -q --detach "$CLEAN" HEAD >> "$LOG" 2>&1
( cd "$WT" && timeout 1800 bash mutant/demo.sh "$CLEAN" ) >> "$LOG" 2>&1; d0=$?
say "demo(clean) rc=$d0"
( cd "$CLEAN" && git apply --check "$WT/mutant/patch.diff" ) >> "$LOG" 2>&1; a_rc=$?
say "patch applies to /repo HEAD: rc=$a_rc"
git -C /repo worktree remove --force "$CLEAN" >> "$LOG" 2>&1
if [ $t_rc -eq 0 ] && [ $d1 -ne 0 ] && [ $d0 -eq 0 ] && [ $a_rc -eq 0 ]; then
  D=$VERIF/seeded/$ID; mkdir -p "$D"
  cp "$WT/mutant/patch.diff" "$D/patch.diff"
  cp "$WT"/mutant/demo.* "$D/" 2>/dev/null
  python3 - "$WT/mutant/meta.json" "$D/meta.json" "$d1" "$d0" <<'EOF'
import json, sys
src, dst, d1, d0 = sys.argv[1:5]
try:
    m = json.load(open(src))
except Exception:
    m = {}
m["confirmed_by_me"] = {
    "tests": "tools/baseline_off.sh <patched worktree>: 575/575 passed in optim and in debug",
    "demo_patched_rc": int(d1), "demo_clean_rc": int(d0),
    "patch_applies_to_repo_head": True,
}
json.dump(m, open(dst, "w"), indent=1)
EOF
  say "CONFIRMED -> $D"
  exit 0
fi
say "NOT CONFIRMED (tests rc=$t_rc demo patched=$d1 clean=$d0 apply=$a_rc); see $LOG"
exit 1
