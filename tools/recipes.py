"""Per-property recipes: which simulated batches decide each property, and the
batch-level (statistical) oracles.  See DESIGN.md section 5."""
import math

BACKENDS = ["spqlios-fma", "spqlios-avx", "nayuki-avx", "nayuki-portable", "fftw"]
# relative cost of one default-set gate per back-end (measured, optim): used to scale counts
SPEED = {"spqlios-fma": 1.0, "spqlios-avx": 1.1, "nayuki-avx": 2.5, "fftw": 2.0, "nayuki-portable": 6.0}


def B(name, scenario, backend, variant, count, **opts):
    extra = {}
    for k in ("weight", "max_procs", "timeout", "env", "det_count", "no_determinism"):
        if k in opts:
            extra[k] = opts.pop(k)
    d = {"name": name, "scenario": scenario, "backend": backend, "variant": variant, "count": int(count), "opts": opts}
    d.update(extra)
    return d


# ----------------------------------------------------------------------------- C01
def c01_batches(tier):
    q = tier == "quick"
    bs = []
    for be in BACKENDS:
        for var in ("optim", "debug"):
            slow = 1.0 if var == "optim" else 0.35
            bs.append(B("table-swarm-%s-%s" % (be, var), "gates", be, var, (300 if q else 3000) * slow, spec="swarm:48", mode="table",
                        specpool=10 if q else 60, nkeys=2, stats=0, weight=30 if q else 300))
    for spec in ("P128", "P80"):
        for be in BACKENDS:
            n = (24 if q else 400) / SPEED[be]
            bs.append(B("table-%s-%s-optim" % (spec, be), "gates", be, "optim", max(3, n), spec=spec, mode="table", nkeys=1 if q else 20,
                        stats=0, weight=60 if q else 600, det_count=1 if q else 4))
            if not q:
                bs.append(B("table-%s-%s-debug" % (spec, be), "gates", be, "debug", max(20, 60 / SPEED[be]), spec=spec, mode="table", nkeys=2,
                            stats=0, weight=600, det_count=1))
        if q:
            bs.append(B("table-%s-spqlios-fma-debug" % spec, "gates", "spqlios-fma", "debug", 3, spec=spec, mode="table", nkeys=1, stats=0,
                        weight=60, det_count=1))
    return bs


# ----------------------------------------------------------------------------- registry
RECIPES = {
    "C01": {
        "level": "exploration",
        "batches": c01_batches,
        "rule": "one run = one seeded gate table: gate g, all 2^arity input tuples, input provenance in {fresh, constant, bootstrapped, "
                "NOT-of-fresh, mixed}, admissible phase fault per input in {none, +1/32, -1/32, towards the decision boundary, uniform}, "
                "optional wire trip and aliasing; non-trivial = at least one fault fired (F-noise/F-chunk/F-short) or an input at the "
                "admissible maximum; distinct = distinct hash of (parameter set, fault multiset, op list)",
        "technique": "deterministic simulation: seeded gate-table runs of a client/cloud pair with injected admissible phase faults, "
                     "wire chunking and aliasing; omniscient-observer oracles at ELF-interposed bootstrap/key-switch seams",
        "level_text": "Seeded exploration of (key, gate, input tuple, provenance, admissible phase fault, transport chunking) on all ten "
                      "library builds; each run checks decryption against the truth table, the observer's own phase sign, the exact "
                      "affine identity of the gate's internal combination modulo 2^32 and the exact key-switch identity. Sampling, not proof.",
        "level_note": "Default sets get hundreds (quick) to thousands (thorough) of gate evaluations per back-end; swarm parameter sets "
                      "(N=1024, small n, Bgbit<=10, accepted only when the worst-case noise estimate leaves 12 sigma) supply the bulk of the "
                      "runs. Trusted: observer arithmetic, glibc/libstdc++, the noise estimate used to accept swarm sets.",
        "assumptions": ["the observer's phase arithmetic (32-bit wrapping dot products written independently of the library) is correct",
                        "ELF interposition of tfhe_bootstrap(_woKS)_FFT / lweKeySwitch reaches the library's internal calls (probe counters "
                        "affine_checked / bootstrap_checked / keyswitch_checked report 0 if it does not)"],
    },
}
