// S1: client/cloud circuit evaluation (gate tables and netlists) with the omniscient observer.
// Serves C01 (truth tables + affine identity at the bootstrap seam), C02 (refinement + noise statistics),
// C04 (rounded-phase prediction at every bootstrap), C08 (exact key-switch identity), C15 (input/key/generator
// snapshots, aliasing), C05 (functional equivalence after a cloud restart: bit-identical ciphertexts).
#include "scen.h"
#include <cmath>
#include <algorithm>
#include <numeric_functions.h>

namespace sim {
namespace {

struct Wire1 { LweSample *ct = nullptr; int bit = -1; int depth = 0; bool booted = false; bool maxnoise = false; };

struct GateCtx {
    KeyCtx *kc;
    const TFheGateBootstrappingCloudKeySet *ck;  // key in use (original or re-imported)
    RunResult *r;
    int op_index = -1;
    int gate = -1;
    // expected affine combinations (C01 oracle 3)
    int naff = 0; GateAffine aff[2];
    uint32_t phi_in[3];
    int boot_seen = 0;       // number of top-level bootstrap calls seen in this gate
    int depth_boot = 0;      // nesting: inside tfhe_bootstrap_FFT
    uint32_t woks_phase[2];  // phase of u1,u2 under the extracted key (MUX)
    // per-call scratch
    uint64_t x_hash = 0; int phat = 0; bool amb = false; uint32_t x_phi = 0;
    uint64_t ks_in_hash = 0; uint32_t ks_pred = 0; bool ks_pred_ok = false;
    uint64_t ks_key_hash = 0;
    std::string affine_note; // diagnostic attached to a wrong-bit report
    double noise_bound;      // admissible |phase - (+-mu)| after a bootstrap (+ks)
    bool monitors = true;
};

static inline int32_t sdiff(uint32_t a, uint32_t b) { return (int32_t) (a - b); }

static void gate_observer(void *vctx, int fn, int phase, void **a) {
    GateCtx *g = (GateCtx *) vctx;
    if (!g->monitors) return;
    KeyCtx *kc = g->kc;
    RunResult &r = *g->r;
    const int N = kc->N, n = kc->n, nin = kc->k * kc->N;
    switch (fn) {
        case F_BOOTSTRAP_FFT:
        case F_BOOTSTRAP_WOKS_FFT: {
            const LweSample *x = (const LweSample *) a[3];
            LweSample *res = (LweSample *) a[0];
            int32_t mu = (int32_t) (intptr_t) a[2];
            bool top = (fn == F_BOOTSTRAP_FFT) || g->depth_boot == 0;
            if (phase == 0) {
                if (fn == F_BOOTSTRAP_FFT) g->depth_boot++;
                if (!top) return;   // the woKS call nested in tfhe_bootstrap_FFT sees the same x
                g->x_hash = obs::hash_lwe(x, n);
                g->x_phi = obs::lwe_phase(x, kc->s.data(), n);
                g->phat = obs::rounded_phase(x, kc->s.data(), n, 2 * N, &g->amb);
                if (g->amb) r.probes.add("modswitch_tie");
                if (g->phat == 0) r.probes.add("phat_0");
                if (g->phat == N - 1) r.probes.add("phat_N-1");
                if (g->phat == N) r.probes.add("phat_N");
                if (g->phat == 2 * N - 1) r.probes.add("phat_2N-1");
                // C01 oracle 3: exact affine identity of the gate's internal combination
                int idx = g->boot_seen;
                if (idx < g->naff) {
                    const GateAffine &af = g->aff[idx];
                    uint32_t want = (uint32_t) af.cst + (uint32_t) af.ca * g->phi_in[0] + (uint32_t) af.cb * g->phi_in[1] + (uint32_t) af.cc * g->phi_in[2];
                    // diagnostic only: the property does not prescribe the internal combination, a different but correct one must not alarm
                    if (want != g->x_phi) { r.probes.add("internal_combination_differs_from_reference_formula"); g->affine_note = fmt("gate %s bootstrap #%d: phase of internal combination %d, reference formula %d", gate_name(g->gate), idx, (int32_t) g->x_phi, (int32_t) want); }
                    r.probes.add("affine_checked");
                }
                return;
            }
            // post
            if (fn == F_BOOTSTRAP_FFT) g->depth_boot--;
            if (fn == F_BOOTSTRAP_WOKS_FFT && g->depth_boot > 0) {
                // nested: check under the extracted key, and input untouched
                uint32_t ph = obs::lwe_phase(res, kc->S.data(), nin);
                if (!g->amb) {
                    uint32_t want = g->phat < N ? (uint32_t) mu : (uint32_t) -mu;
                    if (std::fabs(t2d(sdiff(ph, want))) > g->noise_bound)
                        r.v.raise("bootstrap-map", "C04.woKS", fmt("woKS bootstrap: p^=%d mu=%d phase(result)=%d, expected %d within %.4g", g->phat, mu, (int32_t) ph, (int32_t) want, g->noise_bound), g->op_index);
                }
                return;
            }
            if (obs::hash_lwe(x, n) != g->x_hash)
                r.v.raise("input-modified", "C15.bootstrap-input", fmt("%s modified its input sample", fn_name(fn)), g->op_index);
            uint32_t ph = (fn == F_BOOTSTRAP_FFT) ? obs::lwe_phase(res, kc->s.data(), n) : obs::lwe_phase(res, kc->S.data(), nin);
            if (!g->amb) {
                uint32_t want = g->phat < N ? (uint32_t) mu : (uint32_t) -mu;
                if (std::fabs(t2d(sdiff(ph, want))) > g->noise_bound)
                    r.v.raise("bootstrap-map", "C04.bootstrap", fmt("%s: p^=%d mu=%d phase(result)=%d, expected %d within %.4g", fn_name(fn), g->phat, mu, (int32_t) ph, (int32_t) want, g->noise_bound), g->op_index);
                r.probes.add("bootstrap_checked");
            }
            if (fn == F_BOOTSTRAP_WOKS_FFT && g->boot_seen < 2) g->woks_phase[g->boot_seen] = ph;
            g->boot_seen++;
            return;
        }
        case F_KEYSWITCH: {
            LweSample *res = (LweSample *) a[0];
            const LweKeySwitchKey *ks = (const LweKeySwitchKey *) a[1];
            const LweSample *smp = (const LweSample *) a[2];
            if (phase == 0) {
                g->ks_in_hash = obs::hash_lwe(smp, nin);
                g->ks_pred_ok = false;
                if (g->gate >= 0 && ks == g->ck->bkFFT->ks && ks->n != nin)
                    r.v.raise("keyswitch-identity", "C08.dimension", fmt("the key-switching key of the cloud key covers %d mask coefficients, the extracted sample it is applied to has %d: the phase cannot be preserved", ks->n, nin), g->op_index);
                if (ks->n != nin || ks->t != kc->t || ks->basebit != kc->basebit) return;   // not the gate key
                kc->compute_ks_noise();
                const int t = kc->t, bb = kc->basebit, base = kc->base;
                uint32_t acc = (uint32_t) smp->b;
                int wraps = 0, carries = 0, ties = 0;
                for (int i = 0; i < nin; i++) {
                    uint32_t ai = (uint32_t) smp->a[i];
                    uint32_t at = obs::ks_round(ai, t, bb);
                    uint32_t unit = 1u << (32 - t * bb), trunc = ai & ~(unit - 1);
                    if ((ai & (unit - 1)) == (unit >> 1) && kc->S[i]) ties++;   // exact tie: the property leaves the direction open
                    if (at != trunc) carries++;                            // rounded up
                    if (at == 0 && trunc != 0) wraps++;                    // rounded up past 2^32 (torus wrap-around)
                    acc -= (uint32_t) kc->S[i] * at;
                    for (int j = 0; j < t; j++) {
                        uint32_t d = (at >> (32 - (j + 1) * bb)) & (uint32_t) (base - 1);
                        if (d) acc -= (uint32_t) kc->ks_noise[((size_t) i * t + j) * base + d];
                    }
                }
                if (wraps) r.probes.add("ks_wraparound", (uint64_t) wraps);
                if (carries) r.probes.add("ks_round_up", (uint64_t) carries);
                g->ks_pred = acc; g->ks_pred_ok = ties == 0;
                if (ties) r.probes.add("ks_exact_tie_not_judged");
                // MUX: the key-switch input is 1/8 + u1 + u2 exactly
                if (g->gate == G_MUX && g->depth_boot == 0 && g->boot_seen == 2) {
                    uint32_t want = (uint32_t) T_1s8 + g->woks_phase[0] + g->woks_phase[1];
                    uint32_t got = obs::lwe_phase(smp, kc->S.data(), nin);
                    if (want != got) { r.probes.add("internal_combination_differs_from_reference_formula"); g->affine_note = fmt("MUX: key-switch input phase %d, reference 1/8+u1+u2 = %d", (int32_t) got, (int32_t) want); }
                    r.probes.add("affine_checked");
                }
                return;
            }
            if (obs::hash_lwe(smp, nin) != g->ks_in_hash)
                r.v.raise("input-modified", "C15.keyswitch-input", "lweKeySwitch modified its input sample", g->op_index);
            if (g->ks_pred_ok) {
                uint32_t got = obs::lwe_phase(res, kc->s.data(), n);
                if (got != g->ks_pred)
                    r.v.raise("keyswitch-identity", "C08.exact", fmt("lweKeySwitch: phase(result)=%d != b - sum s_i*round(a_i) - sum used-row noises = %d (difference %d units)", (int32_t) got, (int32_t) g->ks_pred, sdiff(got, g->ks_pred)), g->op_index);
                r.probes.add("keyswitch_checked");
            }
            return;
        }
        default: return;
    }
}

// ------------------------------------------------------------------ plan generation
static int32_t draw_dev(Rng &r, int mode, int sign_toward) {
    switch (mode) {
        case 1: return T_1s32;
        case 2: return -T_1s32;
        case 3: return sign_toward * T_1s32;
        case 4: return (int32_t) r.range(-(int64_t) T_1s32, T_1s32);
    }
    return 0;
}
// sign that moves the gate's internal combination towards its nearest decision boundary, per input
static void toward_signs(int g, int va, int vb, int vc, int sg[3]) {
    sg[0] = sg[1] = sg[2] = 1;
    GateAffine af[2];
    int na = gate_affines(g, af);
    if (!na) return;
    const GateAffine &f = af[0];
    int64_t mu[3] = {va ? T_1s8 : -T_1s8, vb ? T_1s8 : -T_1s8, vc ? T_1s8 : -T_1s8};
    int32_t x = (int32_t) ((uint32_t) f.cst + (uint32_t) (f.ca * mu[0]) + (uint32_t) (f.cb * mu[1]) + (uint32_t) (f.cc * mu[2]));
    // nearest boundary: 0 if |x| < 1/4 else 1/2 ; direction = sign needed on the total deviation
    int dir;
    int64_t ax = x < 0 ? -(int64_t) x : x;
    if (ax < (1ll << 30)) dir = x > 0 ? -1 : 1; else dir = x > 0 ? 1 : -1;
    int c[3] = {f.ca, f.cb, f.cc};
    for (int i = 0; i < 3; i++) sg[i] = c[i] >= 0 ? dir : -dir;
    if (g == G_MUX) {   // second combination uses (-a, c): push a consistently with the first one
        sg[2] = dir;
    }
}

static Plan gen_gates(uint64_t seed, const Op &opts) {
    Rng r(seed);
    Plan p; p.scenario = "gates"; p.seed = seed; p.cfg.kind = "cfg";
    ParamSpec sp = spec_from_opts(opts, r);
    p.cfg.set("spec", sp.str());
    int nkeys = (int) opts.geti("nkeys", 4);
    p.cfg.setu("kseed", mix64(opts.getu("keybase", 7), r.below((uint64_t) nkeys)));
    std::string mode = opts.gets("mode", r.bern(0.5) ? "table" : "netlist");
    p.cfg.set("mode", mode);
    p.cfg.seti("stats", opts.geti("stats", 1));
    double p_fault = opts.getd("pfault", 0.3);
    int w = 0;
    auto input = [&](int bit, int prov) {
        Op o; o.kind = "op"; o.set("k", "in").seti("w", w).seti("bit", bit).seti("prov", prov);
        p.ops.push_back(o); return w++;
    };
    if (mode == "table") {
        int g = opts.has("gate") ? gate_by_name(opts.gets("gate")) : (int) r.below(G_COUNT);
        int ar = gate_arity(g);
        int devmode = opts.has("dev") ? (int) opts.geti("dev") : (int) r.below(5);
        int prov = opts.has("prov") ? (int) opts.geti("prov") : (int) r.below(5);
        for (int tup = 0; tup < (1 << std::max(ar, 1)); tup++) {
            int v[3] = {tup & 1, (tup >> 1) & 1, (tup >> 2) & 1};
            int in[3] = {-1, -1, -1};
            for (int i = 0; i < ar; i++) in[i] = input(v[i], prov == 4 ? (int) r.below(4) : prov);
            int sg[3]; toward_signs(g, v[0], v[1], v[2], sg);
            Op o; o.kind = "op"; o.set("k", "gate").set("g", gate_name(g)).seti("w", w);
            if (ar >= 1) o.seti("a", in[0]).seti("da", draw_dev(r, devmode, sg[0])).seti("fa", devmode ? 1 : 0);
            if (ar >= 2) o.seti("b", in[1]).seti("db", draw_dev(r, devmode, sg[1])).seti("fb", devmode ? 1 : 0);
            if (ar >= 3) o.seti("c", in[2]).seti("dc", draw_dev(r, devmode, sg[2])).seti("fc", devmode ? 1 : 0);
            if (g == G_CONSTANT) o.seti("cst", tup & 1);
            if (r.bern(p_fault)) o.seti("wire", 1).setu("wseed", r.next());
            if (r.bern(0.25) && ar >= 1) o.seti("alias", 1 + (int) r.below(5));
            p.ops.push_back(o); w++;
        }
    } else {
        int nin = (int) r.range(2, 8);
        int maxg = (int) opts.geti("gates", 24);
        int ng = (int) r.range(3, std::max(3, maxg));
        int shape = opts.has("shape") ? (int) opts.geti("shape") : (int) r.below(5);   // 0 random dag, 1 chain, 2 tree, 3 fan-out, 4 in-place accumulate
        if (opts.has("mingates")) ng = std::max(ng, (int) opts.geti("mingates"));
        double muxbias = opts.getd("muxbias", 0.0);
        std::vector<int> vals;
        for (int i = 0; i < nin; i++) { int b = (int) r.below(2); input(b, (int) r.below(2)); vals.push_back(b); }
        int hub = 0;
        for (int gi = 0; gi < ng; gi++) {
            int g;
            do g = (int) r.below(G_COUNT); while (g == G_CONSTANT && gi < 2);
            if (shape == 1 && r.bern(0.8)) { static const int bg[] = {G_NAND, G_XOR, G_AND, G_OR, G_XNOR, G_MUX}; g = bg[r.below(6)]; }
            if (r.bern(muxbias)) g = G_MUX;
            int ar = gate_arity(g);
            int nw = (int) vals.size();
            int in[3];
            for (int i = 0; i < 3; i++) in[i] = (int) r.below((uint64_t) nw);
            if (shape == 1) in[0] = nw - 1;
            if (shape == 3) in[0] = hub;
            if (shape == 2 && nw >= 2) { in[0] = (gi * 2) % nw; in[1] = (gi * 2 + 1) % nw; }
            int out = nw;
            bool inplace = (shape == 4 && r.bern(0.7)) || r.bern(0.1);
            if (inplace && ar >= 1) out = in[r.below((uint64_t) ar)];
            Op o; o.kind = "op"; o.set("k", "gate").set("g", gate_name(g)).seti("w", out);
            int v[3] = {0, 0, 0};
            if (ar >= 1) { o.seti("a", in[0]); v[0] = vals[in[0]]; }
            if (ar >= 2) { o.seti("b", in[1]); v[1] = vals[in[1]]; }
            if (ar >= 3) { o.seti("c", in[2]); v[2] = vals[in[2]]; }
            int cst = (int) r.below(2);
            if (g == G_CONSTANT) { o.seti("cst", cst); v[2] = cst; }
            // admissible noise faults on some inputs
            if (r.bern(p_fault * 0.5)) {
                int sg[3]; toward_signs(g, v[0], v[1], v[2], sg);
                int dm = 1 + (int) r.below(4);
                if (ar >= 1) o.seti("da", draw_dev(r, dm, sg[0])).seti("fa", 1);
                if (ar >= 2) o.seti("db", draw_dev(r, dm, sg[1])).seti("fb", 1);
                if (ar >= 3) o.seti("dc", draw_dev(r, dm, sg[2])).seti("fc", 1);
            }
            if (r.bern(p_fault * 0.3)) o.seti("wire", 1).setu("wseed", r.next());
            if (r.bern(p_fault * 0.2)) o.seti("dup", 1);
            p.ops.push_back(o);
            int val = gate_truth(g, v[0], v[1], g == G_CONSTANT ? cst : v[2]);
            if (out == nw) vals.push_back(val); else vals[out] = val;
            if (r.bern(p_fault * 0.08) && opts.geti("crash", 1)) { Op c; c.kind = "op"; c.set("k", "crash").setu("wseed", r.next()); p.ops.push_back(c); }
        }
    }
    return p;
}

// ------------------------------------------------------------------ execution
struct Pass {
    std::vector<Wire1> wires;
    std::vector<uint64_t> out_hash;   // hash of the ciphertext written by each op (0 for non-gate ops)
};

static void free_pass(Pass &ps) { for (auto &w : ps.wires) if (w.ct) delete_LweSample(w.ct); ps.wires.clear(); }

static void set_deviation(LweSample *ct, KeyCtx *kc, int bit, int32_t dev) {
    uint32_t ph = obs::lwe_phase(ct, kc->s.data(), kc->n);
    uint32_t want = (uint32_t) (bit ? T_1s8 : -T_1s8) + (uint32_t) dev;
    ct->b += (int32_t) (want - ph);
}

static void exec_gates(const Plan &p, RunResult &r) {
    ParamSpec sp = ParamSpec::parse(p.cfg.gets("spec"));
    KeyCtx *kc = get_key(sp, p.cfg.getu("kseed"));
    lib_seed(mix64(p.seed, 0x72756e));
    const LweParams *inp = kc->params->in_out_params;
    const int n = kc->n;
    bool want_stats = p.cfg.geti("stats", 1) != 0;
    bool is_default = sp.name != "S";
    double nb = is_default ? 3.0 / 64 : 12.0 * sp.sd_gate_out() * 1.5 + 1e-7;
    bool has_restart_faults = false;
    for (auto &o : p.ops) if (o.gets("k") == "crash" || o.geti("dup") || o.geti("wire")) has_restart_faults = true;

    Hash cfgh; cfgh.str(p.cfg.gets("spec")); cfgh.str(p.cfg.gets("mode"));
    Hash faulth;
    uint64_t cloud_hash0 = kc->cloud_hash;
    uint64_t params_hash0 = obs::hash_params(kc->params);

    // two passes when legal faults are present: pass 0 = uninterrupted reference with all monitors,
    // pass 1 = with wire trips / duplicates / cloud restarts; every ciphertext must be bit-identical.
    Pass ref, flt;
    TFheGateBootstrappingCloudKeySet *reimported = nullptr;
    std::vector<TFheGateBootstrappingCloudKeySet *> old_keys;
    for (int pass = 0; pass < (has_restart_faults ? 2 : 1) && !r.v.set; pass++) {
        Pass &ps = pass ? flt : ref;
        lib_seed(mix64(p.seed, 0x72756e));   // both passes draw the same fresh encryptions
        const TFheGateBootstrappingCloudKeySet *ck = kc->ck;
        ps.out_hash.assign(p.ops.size(), 0);
        GateCtx g; g.kc = kc; g.r = &r; g.noise_bound = nb; g.monitors = (pass == 0);
        for (size_t oi = 0; oi < p.ops.size() && !r.v.set; oi++) {
            const Op &o = p.ops[oi];
            std::string k = o.gets("k");
            g.op_index = (int) oi; g.ck = ck;
            if (k == "in") {
                int w = (int) o.geti("w"), bit = (int) o.geti("bit"), prov = (int) o.geti("prov");
                if ((int) ps.wires.size() <= w) ps.wires.resize(w + 1);
                Wire1 &W = ps.wires[w];
                if (!W.ct) W.ct = new_gate_bootstrapping_ciphertext(kc->params);
                W.bit = bit; W.depth = 0; W.booted = false; W.maxnoise = false;
                switch (prov) {
                    case 0: bootsSymEncrypt(W.ct, bit, kc->sk); break;
                    case 1: bootsCONSTANT(W.ct, bit, ck); break;
                    case 2: {   // bootstrapped: AND(fresh(bit), constant 1)
                        LweSample *t1 = new_gate_bootstrapping_ciphertext(kc->params), *t2 = new_gate_bootstrapping_ciphertext(kc->params);
                        bootsSymEncrypt(t1, bit, kc->sk); bootsCONSTANT(t2, 1, ck);
                        g.monitors = false; bootsAND(W.ct, t1, t2, ck); g.monitors = (pass == 0);
                        delete_gate_bootstrapping_ciphertext(t1); delete_gate_bootstrapping_ciphertext(t2);
                        W.booted = true; W.depth = 1; break;
                    }
                    default: {  // NOT of a fresh encryption of !bit
                        LweSample *t1 = new_gate_bootstrapping_ciphertext(kc->params);
                        bootsSymEncrypt(t1, !bit, kc->sk); bootsNOT(W.ct, t1, ck);
                        delete_gate_bootstrapping_ciphertext(t1); break;
                    }
                }
                if (pass == 0) r.probes.add(fmt("prov_%d", prov));
                continue;
            }
            if (k == "crash") {
                if (pass == 0) continue;
                // F-crash: the cloud loses its memory; the key is re-imported from the durable store
                Rng wr(o.getu("wseed"));
                WireCfg wc = draw_wire(wr), rc = draw_wire(wr);
                if (sp.n > 100) { wc.wbuf = 65536; wc.wmode = 0; rc.rmax = 0; rc.rbuf = 65536; }   // keep 100 MB keys affordable
                WriteLog log; Obj ko; ko.kind = K_CLOUDKEY; ko.p = (void *) ck; ko.owned = false;
                export_via(ko, wc, &log);
                bool sf = false;
                Obj ni = import_via(ko, log.bytes, rc, nullptr, &sf);
                if (sf || !ni.p) { r.v.raise("reimport-failed", "C05.restart", "re-import of the exported cloud key failed", (int) oi); break; }
                if (reimported) old_keys.push_back(reimported);
                reimported = (TFheGateBootstrappingCloudKeySet *) ni.p;
                ck = reimported;
                r.faults.add("F-crash"); faulth.u64(0xc4a5); faulth.u64(oi);
                continue;
            }
            // gate
            int gt = gate_by_name(o.gets("g"));
            int ar = gate_arity(gt);
            int w = (int) o.geti("w");
            if ((int) ps.wires.size() <= w) ps.wires.resize(w + 1);
            int iw[3] = {(int) o.geti("a", -1), (int) o.geti("b", -1), (int) o.geti("c", -1)};
            const char *dk[3] = {"da", "db", "dc"}, *fk[3] = {"fa", "fb", "fc"};
            LweSample *in[3] = {nullptr, nullptr, nullptr};
            LweSample *tmp[3] = {nullptr, nullptr, nullptr};
            int v[3] = {0, 0, 0};
            int depth = 0; bool anymax = false, anyboot = false;
            bool bad = false;
            for (int i = 0; i < ar; i++) {
                if (iw[i] < 0 || iw[i] >= (int) ps.wires.size() || !ps.wires[iw[i]].ct) { bad = true; break; }
                Wire1 &W = ps.wires[iw[i]];
                v[i] = W.bit; depth = std::max(depth, W.depth); anyboot |= W.booted;
                in[i] = W.ct;
                if (o.geti(fk[i])) {   // F-noise: adversarial wire sets the deviation of the phase from +-1/8 (admissible: <= 1/32)
                    int32_t dev = (int32_t) o.geti(dk[i]);
                    if (dev > T_1s32) dev = T_1s32; if (dev < -T_1s32) dev = -T_1s32;
                    tmp[i] = new_gate_bootstrapping_ciphertext(kc->params);
                    lweCopy(tmp[i], W.ct, inp);
                    set_deviation(tmp[i], kc, W.bit, dev);
                    in[i] = tmp[i];
                    if (pass == 0) { r.faults.add("F-noise"); faulth.u64((uint64_t) (uint32_t) dev); if (dev == T_1s32 || dev == -T_1s32) { r.probes.add("max_noise_input"); } }
                    if (dev == T_1s32 || dev == -T_1s32) anymax = true;
                }
            }
            if (bad) { for (auto *t : tmp) if (t) delete_gate_bootstrapping_ciphertext(t); continue; }   // op refers to a dropped wire (minimised plan)
            int cst = (int) o.geti("cst");
            int expect = gate_truth(gt, v[0], v[1], gt == G_CONSTANT ? cst : v[2]);
            // observer set-up
            g.gate = gt; g.naff = gate_affines(gt, g.aff); g.boot_seen = 0; g.depth_boot = 0; g.affine_note.clear();
            for (int i = 0; i < 3; i++) g.phi_in[i] = in[i] ? obs::lwe_phase(in[i], kc->s.data(), n) : 0;
            // admissibility of the inputs themselves is a precondition: record it, do not judge outside it
            bool admissible = true;
            for (int i = 0; i < ar; i++) {
                int32_t dv = sdiff(g.phi_in[i], (uint32_t) (v[i] ? T_1s8 : -T_1s8));
                if (dv > T_1s32 || dv < -T_1s32) admissible = false;
            }
            if (!admissible && pass == 0) r.probes.add("inadmissible_input_skipped");
            // C15 snapshots
            uint64_t hin[3] = {0, 0, 0};
            for (int i = 0; i < ar; i++) hin[i] = obs::hash_lwe(in[i], n);
            uint64_t gen0 = g.monitors ? obs::hash_generator() : 0;
            // in-place update (acc = GATE(acc, ...)): the output wire is one of the input wires and the public API is called with
            // result aliasing that input, exactly as a netlist evaluator that updates a register in place would
            int inplace_i = -1;
            for (int i = 0; i < ar; i++) if (iw[i] == w && !tmp[i] && ps.wires[w].ct) { inplace_i = i; break; }
            LweSample *out = inplace_i >= 0 ? ps.wires[w].ct : new_gate_bootstrapping_ciphertext(kc->params);
            if (inplace_i >= 0 && pass == 0) r.probes.add(fmt("inplace_result_is_input_%d", inplace_i));
            {
                ObserverScope os(gate_observer, &g);
                watch_begin();
                gate_apply(gt, out, in[0], in[1], in[2], cst, ck);
                std::string what; uint64_t wh = watch_end(&what);
                if (wh && g.monitors) r.v.raise("entropy-use", "C15.watchdog", fmt("gate %s called %s (%llu calls)", gate_name(gt), what.c_str(), (unsigned long long) wh), (int) oi);
            }
            if (g.monitors) {
                for (int i = 0; i < ar; i++)
                    if (in[i] != out && obs::hash_lwe(in[i], n) != hin[i]) r.v.raise("input-modified", "C15.gate-input", fmt("gate %s modified input %d", gate_name(gt), i), (int) oi);
                if (obs::hash_generator() != gen0) r.v.raise("generator-advanced", "C15.generator", fmt("gate %s changed the state of the library generator", gate_name(gt)), (int) oi);
                bool full_key_hash = !is_default || oi == p.ops.size() - 1;
                if (full_key_hash && ck == kc->ck && obs::hash_cloud(ck) != cloud_hash0)
                    r.v.raise("key-modified", "C15.cloud-key", fmt("gate %s modified the cloud key", gate_name(gt)), (int) oi);
                if (obs::hash_params(kc->params) != params_hash0) r.v.raise("key-modified", "C15.params", fmt("gate %s modified the parameter set", gate_name(gt)), (int) oi);
            }
            // aliasing patterns of the public gate API (C15): same bytes as the non-aliased call
            int alias = (int) o.geti("alias");
            if (alias && g.monitors && ar >= 1 && !r.v.set && inplace_i < 0) {
                LweSample *c[3];
                for (int i = 0; i < 3; i++) { c[i] = new_gate_bootstrapping_ciphertext(kc->params); if (in[i]) lweCopy(c[i], in[i], inp); }
                LweSample *res = nullptr; const LweSample *xa = c[0], *xb = c[1], *xc = c[2];
                switch (alias) {
                    case 1: res = c[0]; break;                                     // result = a
                    case 2: res = ar >= 2 ? c[1] : c[0]; break;                     // result = b
                    case 3: res = ar >= 3 ? c[2] : c[0]; break;                     // result = c
                    case 4: xb = c[0]; res = new_gate_bootstrapping_ciphertext(kc->params); break;   // a = b
                    default: xb = c[0]; xc = c[0]; res = c[0]; break;               // all equal
                }
                bool same_inputs = true;   // patterns 4/5 change the operands: only comparable when the operands were equal anyway
                LweSample *refout = out; LweSample *ref2 = nullptr;
                g.monitors = false;
                if (alias >= 4) {
                    ref2 = new_gate_bootstrapping_ciphertext(kc->params);
                    LweSample *d0 = new_gate_bootstrapping_ciphertext(kc->params), *d1 = new_gate_bootstrapping_ciphertext(kc->params), *d2 = new_gate_bootstrapping_ciphertext(kc->params);
                    lweCopy(d0, c[0], inp); lweCopy(d1, c[0], inp); if (alias == 5) lweCopy(d2, c[0], inp); else if (in[2]) lweCopy(d2, in[2], inp);
                    gate_apply(gt, ref2, d0, d1, d2, cst, ck);
                    delete_gate_bootstrapping_ciphertext(d0); delete_gate_bootstrapping_ciphertext(d1); delete_gate_bootstrapping_ciphertext(d2);
                    refout = ref2;
                }
                gate_apply(gt, res, xa, xb, xc, cst, ck);
                g.monitors = true;
                (void) same_inputs;
                if (obs::hash_lwe(res, n) != obs::hash_lwe(refout, n))
                    r.v.raise("alias-differs", "C15.alias", fmt("gate %s with aliasing pattern %d differs from the non-aliased evaluation", gate_name(gt), alias), (int) oi);
                r.probes.add(fmt("alias_%d", alias));
                if (alias == 4) delete_gate_bootstrapping_ciphertext(res);
                for (int i = 0; i < 3; i++) delete_gate_bootstrapping_ciphertext(c[i]);
                if (ref2) delete_gate_bootstrapping_ciphertext(ref2);
            }
            // legal faults of pass 1
            if (pass == 1) {
                if (o.geti("dup") && inplace_i < 0) {   // F-dup: the request is delivered twice (not for in-place updates: the input is gone)
                    LweSample *out2 = new_gate_bootstrapping_ciphertext(kc->params);
                    gate_apply(gt, out2, in[0], in[1], in[2], cst, ck);
                    if (obs::hash_lwe(out2, n) != obs::hash_lwe(out, n)) r.v.raise("nondeterministic", "C06.dup", fmt("gate %s evaluated twice on the same inputs gave different ciphertexts", gate_name(gt)), (int) oi);
                    delete_gate_bootstrapping_ciphertext(out2);
                    r.faults.add("F-dup"); faulth.u64(0xd0b); faulth.u64(oi);
                }
                if (o.geti("wire")) {  // result travels through the wire (export + import, seeded chunking)
                    Rng wr(o.getu("wseed"));
                    WireCfg wc = draw_wire(wr), rc = draw_wire(wr);
                    Obj co; co.kind = K_GATECT; co.p = out; co.gbp = kc->params; co.owned = false;
                    WriteLog log; export_via(co, wc, &log);
                    bool sf = false; ReadState rs;
                    Obj back = import_via(co, log.bytes, rc, nullptr, &sf, &rs);
                    if (sf || obs::hash_lwe((LweSample *) back.p, n) != obs::hash_lwe(out, n)) r.v.raise("wire-roundtrip", "C05.ciphertext", "ciphertext changed by export/import", (int) oi);
                    lweCopy(out, (LweSample *) back.p, inp);
                    obj_free(back);
                    r.faults.add(rc.transport ? "F-chunk-stream" : "F-chunk-file");
                    if (rs.short_reads) r.faults.add("F-short", rs.short_reads);
                    faulth.u64(0x3173); faulth.u64(oi);
                }
            }
            // oracles on the result
            uint32_t ph = obs::lwe_phase(out, kc->s.data(), n);
            int dec = bootsSymDecrypt(out, kc->sk);
            bool boot = ar >= 2;
            if (g.monitors && admissible) {
                if (dec != expect)
                    r.v.raise("wrong-bit", "C01.decrypt", fmt("gate %s(%d,%d,%d) decrypts to %d, truth table says %d (phase %.5f)%s%s", gate_name(gt), v[0], v[1], v[2], dec, expect, t2d((int32_t) ph), g.affine_note.empty() ? "" : "; ", g.affine_note.c_str()), (int) oi);
                if (((int32_t) ph > 0) != (expect != 0))
                    r.v.raise("wrong-bit", "C01.phase-sign", fmt("gate %s(%d,%d,%d): observer phase %.5f has the wrong sign", gate_name(gt), v[0], v[1], v[2], t2d((int32_t) ph)), (int) oi);
                int32_t err = sdiff(ph, (uint32_t) (expect ? T_1s8 : -T_1s8));
                if (!boot) {
                    // NOT / COPY / CONSTANT are noise-free linear operations
                    uint32_t want = gt == G_NOT ? (uint32_t) -g.phi_in[0] : gt == G_COPY ? g.phi_in[0] : (uint32_t) (cst ? T_1s8 : -T_1s8);
                    if (ph != want) r.probes.add("linear_gate_not_noise_free");   // diagnostic: the statement only demands the right bit
                } else {
                    if (std::fabs(t2d(err)) >= 3.0 / 64) r.v.raise("noise-magnitude", "C02.magnitude", fmt("gate %s output phase error %.5f >= 3/64", gate_name(gt), t2d(err)), (int) oi);
                    if (!is_default) { double &mx = r.stats["sigmas.max"]; mx = std::max(mx, std::fabs(t2d(err)) / (sp.sd_gate_out() * (gt == G_MUX ? 1.42 : 1.0))); }
                    if (want_stats) {
                        const char *gc = gt == G_MUX ? "mux" : "bin";
                        const char *ic = anymax ? "max" : (depth >= 50 ? "deep" : (anyboot ? "boot" : "fresh"));
                        double e = t2d(err);
                        std::string kp = "K" + std::to_string(kc->kseed % 100000) + ".";   // per key: the property quantifies over key seeds
                        for (std::string key : {kp + gc, kp + gc + "." + ic}) {
                            r.stats[key + ".n"] += 1; r.stats[key + ".s1"] += e; r.stats[key + ".s2"] += e * e; r.stats[key + ".s4"] += e * e * e * e;
                            double &mx = r.stats[key + ".max"]; mx = std::max(mx, std::fabs(e));
                        }
                        if (depth > 0 && gt != G_MUX) {   // regression of e^2 against depth, binary gates only (MUX has its own variance)
                            r.stats[kp + "chain.n"] += 1; r.stats[kp + "chain.sd"] += depth; r.stats[kp + "chain.sdd"] += (double) depth * depth; r.stats[kp + "chain.se"] += e * e;
                            r.stats[kp + "chain.sde"] += depth * e * e; r.stats[kp + "chain.s4"] += e * e * e * e;
                        }
                    }
                }
                r.probes.add("gate_checked");
            }
            if (g.monitors && !admissible) { /* outside the property's precondition: nothing judged */ }
            ps.out_hash[oi] = obs::hash_lwe(out, n);
            r.ev.u64(ps.out_hash[oi]);
            r.steps++;
            // commit
            Wire1 &W = ps.wires[w];
            if (W.ct && W.ct != out) delete_gate_bootstrapping_ciphertext(W.ct);
            W.ct = out; W.bit = expect; W.depth = boot ? depth + 1 : depth; W.booted = boot || anyboot; W.maxnoise = false;
            for (auto *t : tmp) if (t) delete_gate_bootstrapping_ciphertext(t);
        }
    }
    if (has_restart_faults && !r.v.set) {
        for (size_t oi = 0; oi < p.ops.size(); oi++)
            if (ref.out_hash[oi] != flt.out_hash[oi]) {
                r.v.raise("restart-differs", "C05.functional", fmt("op %zu: ciphertext under wire trips / duplicates / cloud restart differs from the uninterrupted reference", oi), (int) oi);
                break;
            }
        // the client restarts too: its secret key set goes through the store and the re-imported key must decrypt identically
        if (!r.v.set && sp.n <= 100) {
            Rng wr(mix64(p.seed, 0x5ec)); WireCfg wc = draw_wire(wr), rc = draw_wire(wr);
            Obj so; so.kind = K_SECRETKEY; so.p = kc->sk; so.owned = false;
            WriteLog log; export_via(so, wc, &log);
            bool sf = false; Obj imp = import_via(so, log.bytes, rc, nullptr, &sf);
            if (sf || !imp.p) r.v.raise("reimport-failed", "C05.restart", "re-import of the exported secret key set failed", -1);
            else {
                const TFheGateBootstrappingSecretKeySet *sk2 = (const TFheGateBootstrappingSecretKeySet *) imp.p;
                for (size_t w = 0; w < ref.wires.size() && w < flt.wires.size() && !r.v.set; w++)
                    if (ref.wires[w].ct && flt.wires[w].ct) {
                        int d0 = bootsSymDecrypt(ref.wires[w].ct, kc->sk), d1 = bootsSymDecrypt(flt.wires[w].ct, sk2);
                        if (d0 != d1 || lwePhase(ref.wires[w].ct, kc->sk->lwe_key) != lwePhase(flt.wires[w].ct, sk2->lwe_key))
                            r.v.raise("restart-differs", "C05.decrypt", fmt("wire %zu decrypts to %d under the original secret key and %d under the re-imported one", w, d0, d1), -1);
                    }
                r.faults.add("F-crash-client");
                obj_free(imp);
            }
        }
    }
    if (obs::hash_cloud(kc->ck) != cloud_hash0) r.v.raise("key-modified", "C15.cloud-key-end", "cloud key changed during the run", -1);
    free_pass(ref); free_pass(flt);
    if (reimported) delete_gate_bootstrapping_cloud_keyset(reimported);
    for (auto *k : old_keys) delete_gate_bootstrapping_cloud_keyset(k);
    // distinctness: configuration x fault multiset x op list
    Hash ch; ch.u64(cfgh.get()); ch.u64(faulth.get());
    for (auto &o : p.ops) ch.str(o.str());
    r.case_hash = ch.get();
    r.nontrivial = !r.faults.m.empty() || r.probes.m.count("max_noise_input");
    r.sample = fmt("spec=%s mode=%s ops=%zu first_gate=%s", sp.str().c_str(), p.cfg.gets("mode").c_str(), p.ops.size(), p.ops.empty() ? "" : p.ops.back().str().c_str());
}

const Scenario SC = {"gates", gen_gates, exec_gates};
ScenarioReg reg(&SC);
} // namespace
} // namespace sim
