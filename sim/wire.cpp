#include "wire.h"
#include "simsched.h"
#include <algorithm>
#include <sstream>
#include <cstdarg>
#include <cerrno>

namespace sim {

std::string WireCfg::str() const {
    char b[200];
    snprintf(b, sizeof b, "tr=%s wmode=%d wbuf=%zu rmax=%zu rrand=%d rbuf=%zu trunc=%lld eio=%lld", transport ? "stream" : "FILE",
             wmode, wbuf, rmax, (int) rrand, rbuf, (long long) trunc_at, (long long) eio_at);
    return b;
}
WireCfg draw_wire(Rng &r, int transport) {
    WireCfg c;
    c.transport = transport >= 0 ? transport : (int) r.below(2);
    static const size_t sizes[] = {1, 2, 3, 7, 16, 64, 100, 511, 512, 4096, 65536};
    c.wmode = (int) r.below(3);
    c.wbuf = sizes[r.below(11)];
    if (c.transport == 1 && r.bern(0.2)) c.wbuf = 0;
    c.rmax = r.bern(0.3) ? 0 : sizes[r.below(9)];
    c.rrand = r.bern(0.5);
    c.rbuf = r.bern(0.2) ? 0 : sizes[1 + r.below(10)];
    c.cseed = r.next();
    return c;
}

// ------------------------------------------------------------ FILE* writer
static ssize_t ck_write(void *cookie, const char *buf, size_t n) {
    WriteLog *l = (WriteLog *) cookie;
    sim_yield(Y_APP);        // a write call reaching the store is a scheduling point (no-op outside the scheduler)
    l->bytes.append(buf, n);
    l->calls.push_back((uint32_t) n);
    return (ssize_t) n;      // never short: glibc treats a short cookie write as an error (measured)
}
static int ck_close_w(void *) { return 0; }
FILE *open_file_writer(WriteLog *log, const WireCfg &c) {
    cookie_io_functions_t io = {nullptr, ck_write, nullptr, ck_close_w};
    FILE *f = fopencookie(log, "w", io);
    if (!f) { perror("fopencookie"); exit(2); }
    if (c.wmode == 1) setvbuf(f, nullptr, _IONBF, 0);
    else if (c.wmode == 2) setvbuf(f, nullptr, _IOLBF, std::max<size_t>(c.wbuf, 2));
    else setvbuf(f, nullptr, _IOFBF, std::max<size_t>(c.wbuf, 2));
    return f;
}

// ------------------------------------------------------------ stream writer
StoreOutBuf::StoreOutBuf(WriteLog *l, size_t cap_) : log(l), cap(cap_) {
    if (cap) { buf.resize(cap); setp(buf.data(), buf.data() + cap); }
}
StoreOutBuf::~StoreOutBuf() { flush_buf(); }
void StoreOutBuf::flush_buf() {
    if (!cap) return;
    size_t n = (size_t) (pptr() - pbase());
    if (n) { sim_yield(Y_APP); log->bytes.append(pbase(), n); log->calls.push_back((uint32_t) n); }
    setp(buf.data(), buf.data() + cap);
}
StoreOutBuf::int_type StoreOutBuf::overflow(int_type ch) {
    flush_buf();
    if (ch != traits_type::eof()) {
        if (cap) { *pptr() = (char) ch; pbump(1); }
        else { char c = (char) ch; sim_yield(Y_APP); log->bytes.append(&c, 1); log->calls.push_back(1); }
    }
    return traits_type::not_eof(ch);
}
std::streamsize StoreOutBuf::xsputn(const char *s, std::streamsize n) {
    if (!cap) { sim_yield(Y_APP); log->bytes.append(s, (size_t) n); log->calls.push_back((uint32_t) n); return n; }
    return std::streambuf::xsputn(s, n);
}
int StoreOutBuf::sync() { flush_buf(); return 0; }

// ------------------------------------------------------------ readers
size_t ReadState::next_chunk(size_t want) {
    size_t lim = limit();
    size_t avail = pos < lim ? lim - pos : 0;
    if (avail == 0) { if (c.trunc_at >= 0 && (size_t) c.trunc_at < data->size()) hit_trunc = true; return 0; }
    size_t n = std::min(want, avail);
    if (c.rmax) {
        size_t m = c.rrand ? 1 + (size_t) rng.below(c.rmax) : c.rmax;
        if (m < n) { n = m; short_reads++; }
    }
    return n;
}
static ssize_t ck_read(void *cookie, char *buf, size_t n) {
    ReadState *st = (ReadState *) cookie;
    st->reads++;
    if (st->c.eio_at >= 0 && st->pos >= (size_t) st->c.eio_at) { st->hit_eio = true; errno = EIO; return -1; }
    size_t want = n;
    if (st->c.eio_at >= 0 && st->pos + want > (size_t) st->c.eio_at) want = (size_t) st->c.eio_at - st->pos;
    size_t k = st->next_chunk(want);
    if (k) memcpy(buf, st->data->data() + st->pos, k);
    st->pos += k;
    return (ssize_t) k;
}
static int ck_close_r(void *) { return 0; }
FILE *open_file_reader(ReadState *st) {
    st->rng.reseed(st->c.cseed);
    cookie_io_functions_t io = {ck_read, nullptr, nullptr, ck_close_r};
    FILE *f = fopencookie(st, "r", io);
    if (!f) { perror("fopencookie"); exit(2); }
    if (st->c.rbuf == 0) setvbuf(f, nullptr, _IONBF, 0);
    else setvbuf(f, nullptr, _IOFBF, std::max<size_t>(st->c.rbuf, 2));
    return f;
}
StoreInBuf::StoreInBuf(ReadState *s) : st(s) {
    st->rng.reseed(st->c.cseed);
    buf.resize(std::max<size_t>(st->c.rbuf, 1));
    setg(buf.data(), buf.data(), buf.data());
}
StoreInBuf::int_type StoreInBuf::underflow() {
    if (gptr() < egptr()) return traits_type::to_int_type(*gptr());
    st->reads++;
    size_t k = st->next_chunk(buf.size());
    if (!k) return traits_type::eof();
    memcpy(buf.data(), st->data->data() + st->pos, k);
    st->pos += k;
    setg(buf.data(), buf.data(), buf.data() + k);
    return traits_type::to_int_type(*gptr());
}

// ------------------------------------------------------------ object codec
static const char *KN[K_NKINDS] = {"LweParams", "LweSample", "LweKey", "TLweParams", "TLweSample", "TLweKey", "TGswParams",
                                   "TGswSample", "TGswKey", "LweKeySwitchKey", "LweBootstrappingKey", "GateBootstrappingParameterSet",
                                   "CloudKeySet", "SecretKeySet", "GateCiphertext"};
const char *kind_name(int k) { return (k >= 0 && k < K_NKINDS) ? KN[k] : "?"; }
int kind_by_name(const std::string &s) { for (int k = 0; k < K_NKINDS; k++) if (s == KN[k]) return k; return -1; }

void obj_export_file(const Obj &o, FILE *f) {
    switch (o.kind) {
        case K_LWEPARAMS: export_lweParams_toFile(f, (const LweParams *) o.p); break;
        case K_LWESAMPLE: export_lweSample_toFile(f, (const LweSample *) o.p, o.lwep); break;
        case K_LWEKEY: export_lweKey_toFile(f, (const LweKey *) o.p); break;
        case K_TLWEPARAMS: export_tLweParams_toFile(f, (const TLweParams *) o.p); break;
        case K_TLWESAMPLE: export_tlweSample_toFile(f, (const TLweSample *) o.p, o.tlwep); break;
        case K_TLWEKEY: export_tlweKey_toFile(f, (const TLweKey *) o.p); break;
        case K_TGSWPARAMS: export_tGswParams_toFile(f, (const TGswParams *) o.p); break;
        case K_TGSWSAMPLE: export_tgswSample_toFile(f, (const TGswSample *) o.p, o.tgswp); break;
        case K_TGSWKEY: export_tgswKey_toFile(f, (const TGswKey *) o.p); break;
        case K_KSKEY: export_lweKeySwitchKey_toFile(f, (const LweKeySwitchKey *) o.p); break;
        case K_BKKEY: export_lweBootstrappingKey_toFile(f, (const LweBootstrappingKey *) o.p); break;
        case K_GBPARAMS: export_tfheGateBootstrappingParameterSet_toFile(f, (const TFheGateBootstrappingParameterSet *) o.p); break;
        case K_CLOUDKEY: export_tfheGateBootstrappingCloudKeySet_toFile(f, (const TFheGateBootstrappingCloudKeySet *) o.p); break;
        case K_SECRETKEY: export_tfheGateBootstrappingSecretKeySet_toFile(f, (const TFheGateBootstrappingSecretKeySet *) o.p); break;
        case K_GATECT: export_gate_bootstrapping_ciphertext_toFile(f, (const LweSample *) o.p, o.gbp); break;
    }
}
void obj_export_stream(const Obj &o, std::ostream &f) {
    switch (o.kind) {
        case K_LWEPARAMS: export_lweParams_toStream(f, (const LweParams *) o.p); break;
        case K_LWESAMPLE: export_lweSample_toStream(f, (const LweSample *) o.p, o.lwep); break;
        case K_LWEKEY: export_lweKey_toStream(f, (const LweKey *) o.p); break;
        case K_TLWEPARAMS: export_tLweParams_toStream(f, (const TLweParams *) o.p); break;
        case K_TLWESAMPLE: export_tlweSample_toStream(f, (const TLweSample *) o.p, o.tlwep); break;
        case K_TLWEKEY: export_tlweKey_toStream(f, (const TLweKey *) o.p); break;
        case K_TGSWPARAMS: export_tGswParams_toStream(f, (const TGswParams *) o.p); break;
        case K_TGSWSAMPLE: export_tgswSample_toStream(f, (const TGswSample *) o.p, o.tgswp); break;
        case K_TGSWKEY: export_tgswKey_toStream(f, (const TGswKey *) o.p); break;
        case K_KSKEY: export_lweKeySwitchKey_toStream(f, (const LweKeySwitchKey *) o.p); break;
        case K_BKKEY: export_lweBootstrappingKey_toStream(f, (const LweBootstrappingKey *) o.p); break;
        case K_GBPARAMS: export_tfheGateBootstrappingParameterSet_toStream(f, (const TFheGateBootstrappingParameterSet *) o.p); break;
        case K_CLOUDKEY: export_tfheGateBootstrappingCloudKeySet_toStream(f, (const TFheGateBootstrappingCloudKeySet *) o.p); break;
        case K_SECRETKEY: export_tfheGateBootstrappingSecretKeySet_toStream(f, (const TFheGateBootstrappingSecretKeySet *) o.p); break;
        case K_GATECT: export_gate_bootstrapping_ciphertext_toStream(f, (const LweSample *) o.p, o.gbp); break;
    }
}
// the two transports differ only in the function suffix
#define IMPORT_BODY(SUFFIX, SRC)                                                                                             \
    Obj r = like; r.p = nullptr; r.owned = true;                                                                             \
    switch (like.kind) {                                                                                                     \
        case K_LWEPARAMS: r.p = new_lweParams_from##SUFFIX(SRC); break;                                                      \
        case K_LWESAMPLE: { LweSample *s = new_LweSample(like.lwep); r.p = s; import_lweSample_from##SUFFIX(SRC, s, like.lwep); break; } \
        case K_LWEKEY: r.p = new_lweKey_from##SUFFIX(SRC); break;                                                            \
        case K_TLWEPARAMS: r.p = new_tLweParams_from##SUFFIX(SRC); break;                                                    \
        case K_TLWESAMPLE: { TLweSample *s = new_TLweSample(like.tlwep); r.p = s; import_tlweSample_from##SUFFIX(SRC, s, like.tlwep); break; } \
        case K_TLWEKEY: r.p = new_tlweKey_from##SUFFIX(SRC); break;                                                          \
        case K_TGSWPARAMS: r.p = new_tGswParams_from##SUFFIX(SRC); break;                                                    \
        case K_TGSWSAMPLE: { TGswSample *s = new_TGswSample(like.tgswp); r.p = s; import_tgswSample_from##SUFFIX(SRC, s, like.tgswp); break; } \
        case K_TGSWKEY: r.p = new_tgswKey_from##SUFFIX(SRC); break;                                                          \
        case K_KSKEY: r.p = new_lweKeySwitchKey_from##SUFFIX(SRC); break;                                                    \
        case K_BKKEY: r.p = new_lweBootstrappingKey_from##SUFFIX(SRC); break;                                                \
        case K_GBPARAMS: r.p = new_tfheGateBootstrappingParameterSet_from##SUFFIX(SRC); break;                               \
        case K_CLOUDKEY: r.p = new_tfheGateBootstrappingCloudKeySet_from##SUFFIX(SRC); break;                                \
        case K_SECRETKEY: r.p = new_tfheGateBootstrappingSecretKeySet_from##SUFFIX(SRC); break;                              \
        case K_GATECT: { LweSample *s = new_gate_bootstrapping_ciphertext(like.gbp); r.p = s; import_gate_bootstrapping_ciphertext_from##SUFFIX(SRC, s, like.gbp); break; } \
    }                                                                                                                        \
    return r;
Obj obj_import_file(const Obj &like, FILE *f) { IMPORT_BODY(File, f) }
Obj obj_import_stream(const Obj &like, std::istream &is) { IMPORT_BODY(Stream, is) }

void obj_free(Obj &o) {
    if (!o.p || !o.owned) { o.p = nullptr; return; }
    switch (o.kind) {
        case K_LWEPARAMS: delete_LweParams((LweParams *) o.p); break;
        case K_LWESAMPLE: case K_GATECT: delete_LweSample((LweSample *) o.p); break;
        case K_LWEKEY: delete_LweKey((LweKey *) o.p); break;
        case K_TLWEPARAMS: delete_TLweParams((TLweParams *) o.p); break;
        case K_TLWESAMPLE: delete_TLweSample((TLweSample *) o.p); break;
        case K_TLWEKEY: delete_TLweKey((TLweKey *) o.p); break;
        case K_TGSWPARAMS: delete_TGswParams((TGswParams *) o.p); break;   // its TLweParams belong to the collector
        case K_TGSWSAMPLE: delete_TGswSample((TGswSample *) o.p); break;
        case K_TGSWKEY: delete_TGswKey((TGswKey *) o.p); break;
        case K_KSKEY: delete_LweKeySwitchKey((LweKeySwitchKey *) o.p); break;
        case K_BKKEY: delete_LweBootstrappingKey((LweBootstrappingKey *) o.p); break;
        case K_GBPARAMS: delete_gate_bootstrapping_parameters((TFheGateBootstrappingParameterSet *) o.p); break;
        case K_CLOUDKEY: delete_gate_bootstrapping_cloud_keyset((TFheGateBootstrappingCloudKeySet *) o.p); break;
        case K_SECRETKEY: delete_gate_bootstrapping_secret_keyset((TFheGateBootstrappingSecretKeySet *) o.p); break;
    }
    o.p = nullptr;
}

// ---- deep equality
static bool deq(double a, double b) { return memcmp(&a, &b, 8) == 0; }
static bool fail(std::string *why, const char *fmt, ...) __attribute__((format(printf, 2, 3)));
static bool fail(std::string *why, const char *fmt, ...) {
    if (why) { char b[300]; va_list ap; va_start(ap, fmt); vsnprintf(b, sizeof b, fmt, ap); va_end(ap); *why = b; }
    return false;
}
static bool eq_lweparams(const LweParams *a, const LweParams *b, std::string *why) {
    if (a->n != b->n) return fail(why, "LweParams.n %d != %d", a->n, b->n);
    if (!deq(a->alpha_min, b->alpha_min)) return fail(why, "LweParams.alpha_min %.17g != %.17g", a->alpha_min, b->alpha_min);
    if (!deq(a->alpha_max, b->alpha_max)) return fail(why, "LweParams.alpha_max %.17g != %.17g", a->alpha_max, b->alpha_max);
    return true;
}
static bool eq_tlweparams(const TLweParams *a, const TLweParams *b, std::string *why) {
    if (a->N != b->N || a->k != b->k) return fail(why, "TLweParams N/k %d/%d != %d/%d", a->N, a->k, b->N, b->k);
    if (!deq(a->alpha_min, b->alpha_min)) return fail(why, "TLweParams.alpha_min %.17g != %.17g", a->alpha_min, b->alpha_min);
    if (!deq(a->alpha_max, b->alpha_max)) return fail(why, "TLweParams.alpha_max %.17g != %.17g", a->alpha_max, b->alpha_max);
    return eq_lweparams(&a->extracted_lweparams, &b->extracted_lweparams, why);
}
static bool eq_tgswparams(const TGswParams *a, const TGswParams *b, std::string *why) {
    if (a->l != b->l || a->Bgbit != b->Bgbit || a->Bg != b->Bg || a->halfBg != b->halfBg || a->maskMod != b->maskMod ||
        a->kpl != b->kpl || a->offset != b->offset)
        return fail(why, "TGswParams fields differ (l %d/%d Bgbit %d/%d)", a->l, b->l, a->Bgbit, b->Bgbit);
    if (memcmp(a->h, b->h, (size_t) a->l * 4)) return fail(why, "TGswParams.h differs");
    return eq_tlweparams(a->tlwe_params, b->tlwe_params, why);
}
static bool eq_gbparams(const TFheGateBootstrappingParameterSet *a, const TFheGateBootstrappingParameterSet *b, std::string *why) {
    if (a->ks_t != b->ks_t || a->ks_basebit != b->ks_basebit) return fail(why, "ks_t/ks_basebit %d/%d != %d/%d", a->ks_t, a->ks_basebit, b->ks_t, b->ks_basebit);
    return eq_lweparams(a->in_out_params, b->in_out_params, why) && eq_tgswparams(a->tgsw_params, b->tgsw_params, why);
}
static bool eq_lwesample(const LweSample *a, const LweSample *b, int n, std::string *why, bool var = true) {
    if (memcmp(a->a, b->a, (size_t) n * 4)) return fail(why, "LweSample mask differs");
    if (a->b != b->b) return fail(why, "LweSample.b %d != %d", a->b, b->b);
    if (var && !deq(a->current_variance, b->current_variance)) return fail(why, "LweSample.current_variance %.17g != %.17g", a->current_variance, b->current_variance);
    return true;
}
static bool eq_tlwesample(const TLweSample *a, const TLweSample *b, int N, int k, std::string *why, bool var = true) {
    for (int u = 0; u <= k; u++) if (memcmp(a->a[u].coefsT, b->a[u].coefsT, (size_t) N * 4)) return fail(why, "TLweSample.a[%d] differs", u);
    if (var && !deq(a->current_variance, b->current_variance)) return fail(why, "TLweSample.current_variance %.17g != %.17g", a->current_variance, b->current_variance);
    return true;
}
static bool eq_ks(const LweKeySwitchKey *a, const LweKeySwitchKey *b, std::string *why) {
    if (a->n != b->n || a->t != b->t || a->basebit != b->basebit || a->base != b->base) return fail(why, "KS dims differ");
    if (!eq_lweparams(a->out_params, b->out_params, why)) return false;
    int n = a->out_params->n;
    double maxa = -1;
    for (int i = 0; i < a->n * a->t * a->base; i++) maxa = std::max(maxa, a->ks0_raw[i].current_variance);
    for (int i = 0; i < a->n * a->t * a->base; i++) {
        if (!eq_lwesample(&a->ks0_raw[i], &b->ks0_raw[i], n, why, false)) { if (why) *why = "KS row " + std::to_string(i) + ": " + *why; return false; }
        // the advisory per-row variance is stored once: it comes back as the common maximum
        if (!deq(b->ks0_raw[i].current_variance, maxa)) return fail(why, "KS row %d variance %.17g != common maximum %.17g", i, b->ks0_raw[i].current_variance, maxa);
    }
    // the 3-level index must address the same rows
    for (int i = 0; i < b->n; i++) for (int j = 0; j < b->t; j++)
        if (b->ks[i][j] != b->ks0_raw + ((size_t) i * b->t + j) * b->base) return fail(why, "KS index [%d][%d] does not point into the row array", i, j);
    return true;
}
static bool eq_bk(const LweBootstrappingKey *a, const LweBootstrappingKey *b, std::string *why) {
    if (!eq_lweparams(a->in_out_params, b->in_out_params, why) || !eq_tgswparams(a->bk_params, b->bk_params, why)) return false;
    if (!eq_tlweparams(a->accum_params, b->accum_params, why) || !eq_lweparams(a->extract_params, b->extract_params, why)) return false;
    int n = a->in_out_params->n, N = a->bk_params->tlwe_params->N, k = a->bk_params->tlwe_params->k, kpl = a->bk_params->kpl;
    double maxv = -1;
    for (int i = 0; i < n; i++) for (int p = 0; p < kpl; p++) maxv = std::max(maxv, a->bk[i].all_sample[p].current_variance);
    for (int i = 0; i < n; i++) for (int p = 0; p < kpl; p++) {
        if (!eq_tlwesample(&a->bk[i].all_sample[p], &b->bk[i].all_sample[p], N, k, why, false)) { if (why) *why = "BK[" + std::to_string(i) + "][" + std::to_string(p) + "]: " + *why; return false; }
        if (!deq(b->bk[i].all_sample[p].current_variance, maxv)) return fail(why, "BK[%d][%d] variance %.17g != common maximum %.17g", i, p, b->bk[i].all_sample[p].current_variance, maxv);
    }
    return eq_ks(a->ks, b->ks, why);
}
struct LagView { double *coefs; void *proc; };
static bool eq_bkfft(const LweBootstrappingKeyFFT *a, const LweBootstrappingKeyFFT *b, std::string *why) {
    int n = a->in_out_params->n, N = a->bk_params->tlwe_params->N, k = a->bk_params->tlwe_params->k, kpl = a->bk_params->kpl;
    for (int i = 0; i < n; i++) for (int p = 0; p < kpl; p++) for (int u = 0; u <= k; u++) {
        const LagView *x = (const LagView *) &a->bkFFT[i].all_samples[p].a[u], *y = (const LagView *) &b->bkFFT[i].all_samples[p].a[u];
        if (memcmp(x->coefs, y->coefs, (size_t) N * 8)) return fail(why, "bkFFT[%d][%d].a[%d] differs", i, p, u);
    }
    // key-switch rows of the FFT key (copies)
    int nn = a->ks->n * a->ks->t * a->ks->base, no = a->ks->out_params->n;
    if (b->ks->n != a->ks->n || b->ks->t != a->ks->t || b->ks->base != a->ks->base) return fail(why, "bkFFT->ks dims differ");
    for (int i = 0; i < nn; i++) if (!eq_lwesample(&a->ks->ks0_raw[i], &b->ks->ks0_raw[i], no, why, false)) { if (why) *why = "bkFFT->ks row: " + *why; return false; }
    return true;
}
bool obj_equal(const Obj &A, const Obj &B, std::string *why) {
    if (A.kind != B.kind) return fail(why, "kind differs");
    if (!A.p || !B.p) return fail(why, "null object");
    switch (A.kind) {
        case K_LWEPARAMS: return eq_lweparams((const LweParams *) A.p, (const LweParams *) B.p, why);
        case K_LWESAMPLE: return eq_lwesample((const LweSample *) A.p, (const LweSample *) B.p, A.lwep->n, why);
        case K_GATECT: return eq_lwesample((const LweSample *) A.p, (const LweSample *) B.p, A.gbp->in_out_params->n, why);
        case K_LWEKEY: {
            const LweKey *a = (const LweKey *) A.p, *b = (const LweKey *) B.p;
            if (!eq_lweparams(a->params, b->params, why)) return false;
            if (memcmp(a->key, b->key, (size_t) a->params->n * 4)) return fail(why, "LweKey bits differ");
            return true;
        }
        case K_TLWEPARAMS: return eq_tlweparams((const TLweParams *) A.p, (const TLweParams *) B.p, why);
        case K_TLWESAMPLE: return eq_tlwesample((const TLweSample *) A.p, (const TLweSample *) B.p, A.tlwep->N, A.tlwep->k, why);
        case K_TLWEKEY: {
            const TLweKey *a = (const TLweKey *) A.p, *b = (const TLweKey *) B.p;
            if (!eq_tlweparams(a->params, b->params, why)) return false;
            for (int u = 0; u < a->params->k; u++) if (memcmp(a->key[u].coefs, b->key[u].coefs, (size_t) a->params->N * 4)) return fail(why, "TLweKey poly %d differs", u);
            return true;
        }
        case K_TGSWPARAMS: return eq_tgswparams((const TGswParams *) A.p, (const TGswParams *) B.p, why);
        case K_TGSWSAMPLE: {
            const TGswSample *a = (const TGswSample *) A.p, *b = (const TGswSample *) B.p;
            for (int p = 0; p < A.tgswp->kpl; p++)
                if (!eq_tlwesample(&a->all_sample[p], &b->all_sample[p], A.tgswp->tlwe_params->N, A.tgswp->tlwe_params->k, why)) { if (why) *why = "TGswSample row " + std::to_string(p) + ": " + *why; return false; }
            return true;
        }
        case K_TGSWKEY: {
            const TGswKey *a = (const TGswKey *) A.p, *b = (const TGswKey *) B.p;
            if (!eq_tgswparams(a->params, b->params, why)) return false;
            for (int u = 0; u < a->tlwe_params->k; u++) if (memcmp(a->key[u].coefs, b->key[u].coefs, (size_t) a->tlwe_params->N * 4)) return fail(why, "TGswKey poly %d differs", u);
            if (b->key != b->tlwe_key.key) return fail(why, "TGswKey.key does not alias tlwe_key.key");
            return true;
        }
        case K_KSKEY: return eq_ks((const LweKeySwitchKey *) A.p, (const LweKeySwitchKey *) B.p, why);
        case K_BKKEY: return eq_bk((const LweBootstrappingKey *) A.p, (const LweBootstrappingKey *) B.p, why);
        case K_GBPARAMS: return eq_gbparams((const TFheGateBootstrappingParameterSet *) A.p, (const TFheGateBootstrappingParameterSet *) B.p, why);
        case K_CLOUDKEY: {
            const TFheGateBootstrappingCloudKeySet *a = (const TFheGateBootstrappingCloudKeySet *) A.p, *b = (const TFheGateBootstrappingCloudKeySet *) B.p;
            if (!eq_gbparams(a->params, b->params, why)) return false;
            if (!eq_bk(a->bk, b->bk, why)) return false;
            // FFT image: recomputed on import from coefficients that carry the stored common variance only in their annotation
            return eq_bkfft(a->bkFFT, b->bkFFT, why);
        }
        case K_SECRETKEY: {
            const TFheGateBootstrappingSecretKeySet *a = (const TFheGateBootstrappingSecretKeySet *) A.p, *b = (const TFheGateBootstrappingSecretKeySet *) B.p;
            if (!eq_gbparams(a->params, b->params, why)) return false;
            if (!eq_bk(a->cloud.bk, b->cloud.bk, why)) return false;
            if (!eq_bkfft(a->cloud.bkFFT, b->cloud.bkFFT, why)) return false;
            if (memcmp(a->lwe_key->key, b->lwe_key->key, (size_t) a->params->in_out_params->n * 4)) return fail(why, "secret LWE key differs");
            const TLweParams *tp = a->params->tgsw_params->tlwe_params;
            for (int u = 0; u < tp->k; u++) if (memcmp(a->tgsw_key->key[u].coefs, b->tgsw_key->key[u].coefs, (size_t) tp->N * 4)) return fail(why, "secret ring key poly %d differs", u);
            return true;
        }
    }
    return false;
}

uint64_t obj_hash(const Obj &o) {
    WriteLog l; WireCfg c; c.transport = 1; c.wbuf = 65536;
    export_via(o, c, &l);
    return hash_bytes(l.bytes.data(), l.bytes.size());
}

void export_via(const Obj &o, const WireCfg &c, WriteLog *log) {
    if (c.transport == 0) {
        FILE *f = open_file_writer(log, c);
        obj_export_file(o, f);
        fclose(f);
    } else {
        StoreOutBuf sb(log, c.wbuf);
        std::ostream os(&sb);
        obj_export_stream(o, os);
        os.flush();
        sb.flush_buf();
    }
}
Obj import_via(const Obj &like, const std::string &bytes, const WireCfg &c, size_t *consumed, bool *stream_failed, ReadState *rs_out) {
    ReadState rs; rs.data = &bytes; rs.c = c;
    Obj r;
    if (stream_failed) *stream_failed = false;
    if (c.transport == 0) {
        FILE *f = open_file_reader(&rs);
        r = obj_import_file(like, f);
        if (consumed) *consumed = rs.pos;     // includes read-ahead; exactness is checked by sequence imports instead
        fclose(f);
    } else {
        StoreInBuf sb(&rs);
        std::istream is(&sb);
        r = obj_import_stream(like, is);
        if (stream_failed) *stream_failed = is.fail() || is.bad();
        if (consumed) *consumed = sb.consumed();
    }
    if (rs_out) *rs_out = rs;
    return r;
}

} // namespace sim
