// S3: concurrency scenario (C06).  W simulated tasks (real pthreads under the serialising seeded scheduler) evaluate
// gates / bootstrappings on shared inputs with a shared cloud key into private outputs.  Oracles:
//   (a) every output is byte-identical to the sequential reference computed beforehand by one thread
//   (b) the same with seeded "histories" executed before the measured operation on the same thread
//       (FFT products of unrelated extreme polynomials, gates under another key, key generation, key import)
//   (d) FFTW planner lock discipline (all planner calls under one common mutex)
//   plus: shared key, inputs and generator untouched by evaluation (hash before/after).
#include "scen.h"
#include <algorithm>
#include <pthread.h>
#include <unistd.h>
#include <sys/wait.h>
#include <numeric_functions.h>
#include <polynomials_arithmetic.h>

namespace sim {
namespace {

struct TaskOp { int kind; int g; int in[3]; int cst; int32_t mu; int hist; uint64_t hseed; };
// kinds: 0 gate, 1 bootstrap (tfhe_bootstrap_FFT on input a with mu), 2 history only, 3 spawn child that runs the next op, 4 yield
enum { OP_GATE = 0, OP_BOOT = 1, OP_HIST = 2 };
enum { H_NONE = 0, H_FFTPROD, H_OTHERKEY, H_KEYGEN, H_IMPORT, H_NHIST };

static Plan gen_conc(uint64_t seed, const Op &opts) {
    Rng r(seed);
    Plan p; p.scenario = "conc"; p.seed = seed; p.cfg.kind = "cfg";
    ParamSpec sp = spec_from_opts(opts, r);
    p.cfg.set("spec", sp.str());
    p.cfg.setu("kseed", mix64(opts.getu("keybase", 7), r.below((uint64_t) opts.geti("nkeys", 2))));
    int maxw = (int) opts.geti("maxw", 8);
    int W = r.bern(0.15) ? 1 + (int) r.below((uint64_t) maxw) : 2 + (int) r.below((uint64_t) std::max(1, std::min(maxw, 6) - 1));
    if (opts.has("w")) W = (int) opts.geti("w");
    int nin = 2 + (int) r.below(5);
    p.cfg.seti("tasks", W).seti("inputs", nin);
    p.cfg.seti("loader", r.bern(opts.getd("ploader", 0.15)) ? 1 : 0);   // a loader task imports the key and exits before workers use it
    p.cfg.seti("churn", r.bern(opts.getd("pchurn", 0.25)) ? 1 : 0);      // every op of a task runs in a short-lived child thread
    // key generation, input encryption and the sequential reference run in a short-lived set-up thread that has exited before the
    // tasks start: the first thread of the process to touch the FFT layer is then NOT the longest-lived one
    p.cfg.seti("setup_thread", r.bern(opts.getd("psetup", 0.3)) ? 1 : 0);
    // cold: this process has never touched the FFT layer when the tasks start.  Keys, inputs and the sequential reference come
    // from a forked helper process; a loader task imports the key, then every task's first transform is the process's first one
    // (lazily initialised shared state is initialised while other tasks are about to use it).  Needs one process per run (fork=1).
    bool cold = opts.geti("cold") != 0;
    if (cold) { p.cfg.seti("cold", 1).seti("loader", 1).seti("setup_thread", 0); }
    sched_to_plan(p, r, W);
    if (cold) p.cfg.setu("sched_sites", p.cfg.getu("sched_sites") | (1u << Y_TABLEINIT));
    int maxops = (int) opts.geti("maxops", 3);
    double phist = opts.getd("phist", 0.35);
    for (int t = 0; t < W; t++) {
        int nops = 1 + (int) r.below((uint64_t) maxops);
        for (int j = 0; j < nops; j++) {
            Op o; o.kind = "op"; o.seti("t", t);
            int hist = r.bern(phist) ? 1 + (int) r.below(H_NHIST - 1) : 0;
            if (hist == H_IMPORT && sp.n > 100) hist = H_FFTPROD;
            if (cold && hist == H_OTHERKEY) hist = H_FFTPROD;   // (a second key would have to be generated in this process)
            o.seti("hist", hist).setu("hseed", r.next());
            if (r.bern(0.15)) {
                o.set("k", "boot").seti("a", (int) r.below((uint64_t) nin)).seti("mu", (int32_t) r.next());
            } else {
                int g; do g = (int) r.below(G_COUNT); while (g == G_CONSTANT || g == G_COPY || g == G_NOT);
                if (r.bern(0.2)) g = G_MUX;
                o.set("k", "gate").set("g", gate_name(g));
                // inputs: shared inputs (i) or the task's own previous outputs (negative = own output index+1)
                for (const char *nm : {"a", "b", "c"}) {
                    int v = (j > 0 && r.bern(0.4)) ? -(1 + (int) r.below((uint64_t) j)) : (int) r.below((uint64_t) nin);
                    o.seti(nm, v);
                }
            }
            p.ops.push_back(o);
        }
    }
    return p;
}

struct Shared {
    KeyCtx *kc; KeyCtx *kc2;
    const TFheGateBootstrappingCloudKeySet *ck;
    std::vector<LweSample *> inputs;
    std::string key_bytes;       // exported cloud key (for H_IMPORT / loader)
    const TFheGateBootstrappingCloudKeySet *loaded = nullptr;
    const TFheGateBootstrappingParameterSet *params = nullptr; int n = 0;
};

static void run_history(int hist, uint64_t hseed, Shared &sh) {
    Rng r(hseed);
    switch (hist) {
        case H_FFTPROD: {
            // FFT products of unrelated polynomials with extreme coefficients: leaves the per-thread scratch full of large values
            const int N = 1024;
            IntPolynomial *a = new_IntPolynomial(N); TorusPolynomial *b = new_TorusPolynomial(N), *c = new_TorusPolynomial(N);
            int reps = 1 + (int) r.below(3);
            for (int k = 0; k < reps; k++) {
                int mode = r.bern(0.5) ? 0 : 2;   // (an all-maximal alternating pattern trips a debug-build accuracy assertion of the nayuki back-end: C10's domain, not used here)
                for (int i = 0; i < N; i++) {
                    a->coefs[i] = mode == 0 ? (int32_t) r.range(-512, 511) : mode == 1 ? ((i & 1) ? 511 : -512) : (int32_t) r.range(-1, 1);   // gadget-digit range (C10): larger values leave the FFT accuracy range and trip debug assertions
                    b->coefsT[i] = mode == 1 ? ((i & 1) ? INT32_MAX : INT32_MIN) : (int32_t) r.next();
                }
                torusPolynomialMultFFT(c, a, b);
                torusPolynomialAddMulRFFT(c, a, b);
            }
            delete_IntPolynomial(a); delete_TorusPolynomial(b); delete_TorusPolynomial(c);
            break;
        }
        case H_OTHERKEY: {
            // a gate under a different key and parameter set on this thread
            KeyCtx *k2 = sh.kc2;
            LweSample *x = new_gate_bootstrapping_ciphertext(k2->params), *y = new_gate_bootstrapping_ciphertext(k2->params), *z = new_gate_bootstrapping_ciphertext(k2->params);
            bootsCONSTANT(x, (int) r.below(2), k2->ck); bootsCONSTANT(y, (int) r.below(2), k2->ck);
            if (r.bern(0.5)) bootsXOR(z, x, y, k2->ck); else bootsMUX(z, x, y, x, k2->ck);
            delete_gate_bootstrapping_ciphertext(x); delete_gate_bootstrapping_ciphertext(y); delete_gate_bootstrapping_ciphertext(z);
            break;
        }
        case H_KEYGEN: {
            // key generation with the task's own data (uses the process-global generator, which evaluation must not touch)
            ParamSpec s2; s2.name = "S"; s2.n = 2 + (int) r.below(3); s2.k = 1; s2.l = 1; s2.Bgbit = 8; s2.t = 1; s2.basebit = 1; s2.a_ks = 1e-6; s2.a_bk = 1e-9;
            TFheGateBootstrappingParameterSet *ps = make_params(s2);
            TFheGateBootstrappingSecretKeySet *k = new_random_gate_bootstrapping_secret_keyset(ps);
            delete_gate_bootstrapping_secret_keyset(k);
            delete_gate_bootstrapping_parameters(ps);
            break;
        }
        case H_IMPORT: {
            // import the cloud key on this thread, evaluate nothing with it, drop it
            Obj like; like.kind = K_CLOUDKEY; like.p = (void *) sh.ck; like.owned = false;
            WireCfg rc; rc.transport = (int) r.below(2); rc.rbuf = 65536;
            bool sf = false;
            Obj o = import_via(like, sh.key_bytes, rc, nullptr, &sf);
            obj_free(o);
            break;
        }
    }
}

struct TaskState { std::vector<LweSample *> outs; std::vector<uint64_t> hashes; };

static void run_op(const Op &o, Shared &sh, TaskState &ts, const TFheGateBootstrappingCloudKeySet *ck, bool with_history) {
    if (with_history && o.geti("hist")) run_history((int) o.geti("hist"), o.getu("hseed"), sh);
    LweSample *out = new_gate_bootstrapping_ciphertext(sh.params);
    auto pick = [&](int v) -> const LweSample * {
        if (v < 0) { int idx = -v - 1; return idx < (int) ts.outs.size() ? ts.outs[idx] : sh.inputs[0]; }
        return sh.inputs[(size_t) v % sh.inputs.size()];
    };
    if (o.gets("k") == "boot") {
        tfhe_bootstrap_FFT(out, ck->bkFFT, (int32_t) o.geti("mu"), pick((int) o.geti("a")));
    } else {
        int g = gate_by_name(o.gets("g"));
        gate_apply(g, out, pick((int) o.geti("a")), pick((int) o.geti("b")), pick((int) o.geti("c")), 0, ck);
    }
    ts.outs.push_back(out);
    ts.hashes.push_back(obs::hash_lwe(out, sh.n));
}

static void write_all(int fd, const void *b, size_t n) { const char *q = (const char *) b; while (n) { ssize_t w = write(fd, q, n); if (w <= 0) _exit(3); q += w; n -= (size_t) w; } }
static bool read_all(int fd, void *b, size_t n) { char *q = (char *) b; while (n) { ssize_t w = read(fd, q, n); if (w <= 0) return false; q += w; n -= (size_t) w; } return true; }

struct SetupArgs { std::function<void()> fn; };
static void *setup_main(void *v) { ((SetupArgs *) v)->fn(); return nullptr; }

static void exec_conc(const Plan &p, RunResult &r) {
    ParamSpec sp = ParamSpec::parse(p.cfg.gets("spec"));
    Shared sh;
    KeyCtx *kc = nullptr;
    int W = (int) p.cfg.geti("tasks"), nin = (int) p.cfg.geti("inputs");
    if (W < 1 || nin < 1) return;
    std::vector<std::vector<const Op *>> tops((size_t) W);
    for (auto &o : p.ops) { int t = (int) o.geti("t"); if (t >= 0 && t < W) tops[(size_t) t].push_back(&o); }
    std::vector<TaskState> ref((size_t) W), got((size_t) W);
    auto setup = [&]() {
        sh.kc = get_key(sp, p.cfg.getu("kseed"));
        ParamSpec s2; s2.name = "S"; s2.n = 5; s2.k = sp.k == 1 ? 2 : 1; s2.l = 3; s2.Bgbit = 8; s2.t = 4; s2.basebit = 3; s2.a_ks = 1e-7; s2.a_bk = 1e-9;
        // with a default set the "other key" of the histories is the other default set: a thread that has evaluated with a key
        // of one large dimension then evaluates with another (per-thread scratch sized by the first key would show)
        if (sp.name == "P128") s2 = ParamSpec::P80(); else if (sp.name == "P80") s2 = ParamSpec::P128();
        sh.kc2 = get_key(s2, 99);
        sh.ck = sh.kc->ck;
        kc = sh.kc; sh.params = kc->params; sh.n = kc->n;
        lib_seed(mix64(p.seed, 0xc0c));
        for (int i = 0; i < nin; i++) { LweSample *c = new_gate_bootstrapping_ciphertext(kc->params); bootsSymEncrypt(c, i & 1, kc->sk); sh.inputs.push_back(c); }
        bool need_bytes = p.cfg.geti("loader") != 0 || p.cfg.geti("cold") != 0;
        for (auto &o : p.ops) if (o.geti("hist") == H_IMPORT) need_bytes = true;
        if (need_bytes) {
            Obj ko; ko.kind = K_CLOUDKEY; ko.p = (void *) sh.ck; ko.owned = false;
            WriteLog log; WireCfg wc; wc.transport = 1; wc.wbuf = 65536; export_via(ko, wc, &log); sh.key_bytes.swap(log.bytes);
        }
        // ---- sequential reference: one thread, nothing else running, no histories
        for (int t = 0; t < W; t++) for (auto *o : tops[(size_t) t]) run_op(*o, sh, ref[(size_t) t], sh.ck, false);
    };
    bool cold = p.cfg.geti("cold") != 0;
    set_trig_yields(cold);
    TFheGateBootstrappingCloudKeySet *cold_key = nullptr;
    if (cold) {
        // helper process: everything that needs the secret key or the FFT layer happens there
        int pfd[2]; if (pipe(pfd) != 0) { r.v.raise("sim-error", "SIM.pipe", "pipe failed"); return; }
        fflush(stdout); fflush(stderr);
        pid_t pid = fork();
        if (pid == 0) {
            close(pfd[0]);
            setup();
            uint64_t len = sh.key_bytes.size(); int32_t nn = sh.n;
            write_all(pfd[1], &len, 8); write_all(pfd[1], sh.key_bytes.data(), len); write_all(pfd[1], &nn, 4);
            for (auto *c : sh.inputs) { write_all(pfd[1], c->a, (size_t) nn * 4); write_all(pfd[1], &c->b, 4); write_all(pfd[1], &c->current_variance, 8); }
            for (int t = 0; t < W; t++) { uint64_t k = ref[(size_t) t].hashes.size(); write_all(pfd[1], &k, 8); write_all(pfd[1], ref[(size_t) t].hashes.data(), k * 8); }
            _exit(0);
        }
        close(pfd[1]);
        uint64_t len = 0; int32_t nn = 0; bool ok = read_all(pfd[0], &len, 8) && len < (1ull << 32);
        if (ok) { sh.key_bytes.resize(len); ok = read_all(pfd[0], &sh.key_bytes[0], len) && read_all(pfd[0], &nn, 4); }
        std::vector<std::vector<int32_t>> ina; std::vector<int32_t> inb; std::vector<double> inv;
        for (int i = 0; ok && i < nin; i++) { ina.emplace_back((size_t) nn); int32_t b = 0; double v = 0; ok = read_all(pfd[0], ina.back().data(), (size_t) nn * 4) && read_all(pfd[0], &b, 4) && read_all(pfd[0], &v, 8); inb.push_back(b); inv.push_back(v); }
        for (int t = 0; ok && t < W; t++) { uint64_t k = 0; ok = read_all(pfd[0], &k, 8) && k < 100000; if (ok) { ref[(size_t) t].hashes.resize(k); ok = read_all(pfd[0], ref[(size_t) t].hashes.data(), k * 8); } }
        close(pfd[0]); int st = 0; waitpid(pid, &st, 0);
        if (!ok) { r.v.raise("sim-error", "SIM.helper", "set-up helper process failed"); return; }
        // the loader task (first and only user of the library so far) imports the key and exits
        SchedConfig lc = sched_from_plan(p); lc.explicit_sched = false; lc.sw.clear();
        std::vector<std::function<void()>> lt;
        lt.push_back([&]() {
            Obj like; like.kind = K_CLOUDKEY; like.p = nullptr; like.owned = false;
            WireCfg rc; rc.transport = 0; rc.rbuf = 65536; bool sf = false;
            Obj o = import_via(like, sh.key_bytes, rc, nullptr, &sf);
            cold_key = (TFheGateBootstrappingCloudKeySet *) o.p;
        });
        sched_run(lc, lt);
        if (!cold_key) { r.v.raise("sim-error", "SIM.helper", "cloud key of the helper process does not import"); return; }
        sh.ck = cold_key; sh.params = cold_key->params; sh.n = nn;
        for (int i = 0; i < nin; i++) {
            LweSample *c = new_gate_bootstrapping_ciphertext(sh.params);
            memcpy(c->a, ina[(size_t) i].data(), (size_t) nn * 4); c->b = inb[(size_t) i]; c->current_variance = inv[(size_t) i];
            sh.inputs.push_back(c);
        }
        r.probes.add("cold_process");
    } else if (p.cfg.geti("setup_thread")) {
        SetupArgs sa{setup}; pthread_t th; pthread_attr_t at; pthread_attr_init(&at); pthread_attr_setstacksize(&at, 8 << 20);
        pthread_create(&th, &at, setup_main, &sa); pthread_join(th, nullptr); pthread_attr_destroy(&at);
        r.probes.add("setup_in_exited_thread");
    } else setup();
    uint64_t cloud0 = obs::hash_cloud(sh.ck), gen0 = obs::hash_generator();
    std::vector<uint64_t> in0; for (auto *c : sh.inputs) in0.push_back(obs::hash_lwe(c, sh.n));
    bool anykeygen = false; for (auto &o : p.ops) if (o.geti("hist") == H_KEYGEN) anykeygen = true;
    // ---- concurrent phase under the scheduler
    SchedConfig sc = sched_from_plan(p);
    bool loader = p.cfg.geti("loader") != 0, churn = p.cfg.geti("churn") != 0;
    const TFheGateBootstrappingCloudKeySet *use_ck = sh.ck;
    TFheGateBootstrappingCloudKeySet *loaded = nullptr;
    if (loader && !cold) {
        // the loader thread imports the key and exits; workers then evaluate with a key whose FFT rows were created by a dead thread
        SchedConfig lc = sc; lc.explicit_sched = false; lc.sw.clear();
        std::vector<std::function<void()>> lt;
        lt.push_back([&]() {
            Obj like; like.kind = K_CLOUDKEY; like.p = (void *) sh.ck; like.owned = false;
            WireCfg rc; rc.transport = 0; rc.rbuf = 65536; bool sf = false;
            Obj o = import_via(like, sh.key_bytes, rc, nullptr, &sf);
            loaded = (TFheGateBootstrappingCloudKeySet *) o.p;
        });
        sched_run(lc, lt);
        if (loaded) use_ck = loaded;
        r.probes.add("loader_thread_key");
    }
    std::vector<std::function<void()>> tasks;
    for (int t = 0; t < W; t++) {
        tasks.push_back([&, t]() {
            for (auto *o : tops[(size_t) t]) {
                if (churn) {
                    int child = sched_spawn([&, t, o]() { run_op(*o, sh, got[(size_t) t], use_ck, true); });
                    sched_join(child);
                } else run_op(*o, sh, got[(size_t) t], use_ck, true);
                sim_yield(Y_APP);
            }
        });
    }
    SchedResult sr = sched_run(sc, tasks);
    r.steps = sr.steps; r.switches = sr.switches; r.sched_hash = sr.sched_hash;
    for (auto &kv : sr.site_hits) r.probes.add("yield_" + kv.first, kv.second);
    if (churn) r.probes.add("thread_churn");
    if (sr.planner_calls) r.probes.add("planner_calls", sr.planner_calls);
    // ---- oracles
    for (int t = 0; t < W && !r.v.set; t++) {
        if (got[(size_t) t].hashes.size() != ref[(size_t) t].hashes.size()) { r.v.raise("sim-mismatch", "C06.count", "task produced a different number of outputs"); break; }
        for (size_t j = 0; j < ref[(size_t) t].hashes.size(); j++) {
            r.ev.u64(got[(size_t) t].hashes[j]);
            if (got[(size_t) t].hashes[j] != ref[(size_t) t].hashes[j]) {
                const Op *o = tops[(size_t) t][j];
                r.v.raise("output-differs", "C06.bytes", fmt("task %d op %zu (%s%s): output ciphertext differs from the sequential reference (W=%d, %llu switches, history %d%s%s)", t, j,
                                                            o->gets("k").c_str(), o->has("g") ? (":" + o->gets("g")).c_str() : "", W, (unsigned long long) sr.switches, (int) o->geti("hist"), churn ? ", thread churn" : "", loader ? ", key loaded by an exited thread" : ""), (int) (o - &p.ops[0]));
                break;
            }
        }
    }
    if (!sr.planner_violation.empty()) r.v.raise("planner-unlocked", "C06.planner-lock", sr.planner_violation);
    if (obs::hash_cloud(sh.ck) != cloud0) r.v.raise("key-modified", "C06.shared-key", "shared cloud key modified during concurrent evaluation");
    for (size_t i = 0; i < sh.inputs.size(); i++) if (obs::hash_lwe(sh.inputs[i], sh.n) != in0[i]) r.v.raise("input-modified", "C06.shared-input", fmt("shared input %zu modified", i));
    if (!anykeygen && obs::hash_generator() != gen0) r.v.raise("generator-advanced", "C06.generator", "library generator advanced during evaluation-only workload");
    if (r.v.set && !p.explicit_sched) { Plan q = p; q.explicit_sched = true; q.sw = sr.trace; r.explicit_plan = q.str(); }
    // clean-up
    for (auto &ts : ref) for (auto *c : ts.outs) delete_gate_bootstrapping_ciphertext(c);
    for (auto &ts : got) for (auto *c : ts.outs) delete_gate_bootstrapping_ciphertext(c);
    for (auto *c : sh.inputs) delete_gate_bootstrapping_ciphertext(c);
    if (loaded) delete_gate_bootstrapping_cloud_keyset(loaded);
    if (cold_key) delete_gate_bootstrapping_cloud_keyset(cold_key);
    Hash ch; ch.str(p.cfg.gets("spec")); ch.u64((uint64_t) W); ch.u64(sr.sched_hash); for (auto &o : p.ops) ch.str(o.str());
    r.case_hash = ch.get(); r.nontrivial = sr.switches > 0;
    uint64_t hists = 0; for (auto &o : p.ops) if (o.geti("hist")) hists++;
    if (hists) r.faults.add("history-ops", hists);
    if (sr.switches) r.faults.add("preemptions", sr.switches);
    r.sample = fmt("spec=%s W=%d ops=%zu histories=%llu churn=%d loader=%d strategy=%d p=%.2f sites=%#x yields=%llu switches=%llu", sp.str().c_str(), W, p.ops.size(),
                   (unsigned long long) hists, (int) churn, (int) loader, sc.strategy, sc.p_switch, sc.site_mask, (unsigned long long) sr.yields, (unsigned long long) sr.switches);
}

const Scenario SC = {"conc", gen_conc, exec_conc};
ScenarioReg reg(&SC);
} // namespace
} // namespace sim
