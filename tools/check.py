#!/usr/bin/env python3
"""Driver of the deterministic-simulation checks.

  tools/check.py <PROPERTY> [--tier quick|thorough] [--seed N]
  tools/check.py replay <replay-file>
  tools/check.py determinism [--tier ...]

Builds what it needs from /repo's current working tree, fans simulated runs out
over worker processes, gathers the per-run records, judges batch-level
(statistical) oracles, gates + minimises violations, writes
/verif/evidence/<id>.json and prints `VIOLATION property=<id> replay=<path>`.
Exit: 0 property held on everything explored, 1 violation, 2 simulator/infra error.
"""
import concurrent.futures as cf
import hashlib
import json
import math
import os
import re
import subprocess
import sys
import tempfile
import time

HERE = os.path.dirname(os.path.abspath(__file__))
VERIF = os.path.dirname(HERE)
OUT = os.environ.get("VERIF_OUT", VERIF)   # where evidence/ and replays/ are written (scratch dir when trying seeded changes)
sys.path.insert(0, HERE)
import build  # noqa: E402
import recipes  # noqa: E402

NCPU = 16
import threading
WORKER_SLOTS = threading.BoundedSemaphore(int(os.environ.get("VERIF_WORKERS", NCPU)))   # global cap on concurrent worker processes


def log(*a):
    print(*a, file=sys.stderr, flush=True)


# ----------------------------------------------------------------------------- running workers
# glibc serves small allocations from the per-thread cache without applying M_PERTURB and leaves heap pointers and a random
# key in recycled chunks: with the cache off every allocation goes through the path that fills it with the plan's pattern, so a
# read of uninitialised memory is deterministic (same value in the original run and in a fresh-process replay)
WORKER_ENV = {"GLIBC_TUNABLES": "glibc.malloc.tcache_count=0"}


def clip(err, head=5000, tail=3000):
    """sanitizer reports start with the error line and end with pages of shadow bytes: keep both ends"""
    if len(err) <= head + tail:
        return err
    return err[:head] + "\n...[clipped]...\n" + err[-tail:]


ORACLES = None   # oracle families of the property being checked (set in do_check)


def run_chunk(exe, backend, variant, scenario, base, first, count, opts, samples=2, timeout=3600, env=None, wrapper=None):
    """Runs `count` seeds in one worker process; restarts after a worker death.
    Returns (records, deaths) where deaths = [(seed, rc, stderr_tail)]"""
    records, deaths = [], []
    i = first
    end = first + count
    while i < end:
        cmd = list(wrapper or []) + [exe, "run", "--scenario", scenario, "--seed-base", str(base), "--first", str(i), "--count", str(end - i),
               "--backend", backend, "--variant", variant, "--samples", str(samples)]
        if ORACLES:
            cmd += ["--oracles", ",".join(ORACLES)]
        for k, v in sorted(opts.items()):
            cmd += ["--opt", "%s=%s" % (k, v)]
        with WORKER_SLOTS:
            try:
                p = subprocess.run(cmd, stdout=subprocess.PIPE, stderr=subprocess.PIPE, timeout=timeout, env=dict(env or os.environ, **WORKER_ENV))
                out, err, rc = p.stdout.decode(errors="replace"), p.stderr.decode(errors="replace"), p.returncode
            except subprocess.TimeoutExpired as e:
                out = (e.stdout or b"").decode(errors="replace")
                err = (e.stderr or b"").decode(errors="replace") + "\nTIMEOUT"
                rc = -999
        done = 0
        cur = None
        finished = False
        restart = False
        for line in out.splitlines():
            if line.startswith("BEGIN "):
                cur = int(line.split()[1])
            elif line.startswith("{"):
                try:
                    records.append(json.loads(line))
                except ValueError:
                    continue
                if records[-1].get("status") == "violation" and records[-1]["viol"]["cls"] == "leak":
                    m = re.search(r"ERROR: LeakSanitizer.*", err, re.S)
                    records[-1]["stderr"] = clip(m.group(0) if m else err, 6000, 500)
                done += 1
                cur = None
            elif line.startswith("END "):
                finished = True
            elif line.startswith("RESTART"):
                restart = True
        if finished and rc == 88 and wrapper:
            # valgrind reported errors (its exit code) although the worker completed: attribute to the last run of this chunk
            deaths.append({"seed": records[-1]["seed"] if records else None, "index": end - 1, "rc": rc, "stderr": clip(err), "exe": exe, "backend": backend,
                           "variant": variant, "scenario": scenario, "opts": dict(opts), "base": base})
            break
        if finished:
            break
        if restart:   # the worker asked for a fresh process (e.g. after a leak report); nothing died
            i = i + done
            continue
        # the worker died in run number `done` of this chunk
        deaths.append({"seed": cur, "index": i + done, "rc": rc, "stderr": clip(err), "exe": exe, "backend": backend,
                       "variant": variant, "scenario": scenario, "opts": dict(opts), "base": base, "proc_first": i})
        i = i + done + 1
    return records, deaths


def run_batch(exes, batch, base_seed, workers):
    """batch: dict(scenario, variant, backend, opts, count). Returns (records, deaths, wall)"""
    exe = exes[(batch["backend"], batch["variant"])]
    count = batch["count"]
    nchunks = max(1, min(workers, count, batch.get("max_procs", workers)))
    per = (count + nchunks - 1) // nchunks
    jobs = []
    t0 = time.time()
    env = dict(os.environ)
    env.update(batch.get("env", {}))
    with cf.ThreadPoolExecutor(max_workers=nchunks) as ex:
        for c in range(nchunks):
            first = c * per
            n = min(per, count - first)
            if n <= 0:
                continue
            jobs.append(ex.submit(run_chunk, exe, batch["backend"], batch["variant"], batch["scenario"], base_seed, first, n,
                                  batch.get("opts", {}), 2, batch.get("timeout", 3600), env, batch.get("wrapper")))
        recs, deaths = [], []
        for j in jobs:
            r, d = j.result()
            recs += r
            deaths += d
    return recs, deaths, time.time() - t0


M64 = (1 << 64) - 1


def mix64(a, b):
    """the worker's seed derivation (sim/core.h): run seed = mix64(batch base, run index)"""
    x = (a ^ ((b * 0x9E3779B97F4A7C15) & M64) ^ 0xD1B54A32D192ED03) & M64
    z = 0
    for _ in range(2):
        x = (x + 0x9E3779B97F4A7C15) & M64
        z = x
        z = ((z ^ (z >> 30)) * 0xBF58476D1CE4E5B9) & M64
        z = ((z ^ (z >> 27)) * 0x94D049BB133111EB) & M64
        z = z ^ (z >> 31)
    return z


def batch_base(base_seed, name, i):
    return int(hashlib.sha1(("%d/%s/%d" % (base_seed, name, i)).encode()).hexdigest()[:15], 16)


def run_list(exe, b, base, indices, timeout=1800):
    """Executes the runs with the given indices, in this order, in ONE fresh worker process; returns the list of signatures
    (evhash+status+schedule) in that order, or None when the worker died."""
    cmd = list(b.get("wrapper") or []) + [exe, "run", "--scenario", b["scenario"], "--seed-base", str(base), "--list", ",".join(str(i) for i in indices),
           "--backend", b["backend"], "--variant", b["variant"], "--samples", "0"]
    if ORACLES:
        cmd += ["--oracles", ",".join(ORACLES)]
    for k, v in sorted(b.get("opts", {}).items()):
        cmd += ["--opt", "%s=%s" % (k, v)]
    env = dict(os.environ)
    env.update(b.get("env", {}))
    env.update(WORKER_ENV)
    with WORKER_SLOTS:
        try:
            p = subprocess.run(cmd, stdout=subprocess.PIPE, stderr=subprocess.PIPE, timeout=timeout, env=env)
        except subprocess.TimeoutExpired:
            return None
    sigs = []
    for line in p.stdout.decode(errors="replace").splitlines():
        if line.startswith("{"):
            try:
                x = json.loads(line)
            except ValueError:
                continue
            sigs.append(x["evhash"] + x["status"] + x["sched_hash"])
    return sigs if len(sigs) == len(indices) else None


def run_list_death(exe, b, base, indices, timeout=3600):
    """like run_list, for crashes: returns (number of completed runs, rc, stderr)"""
    cmd = list(b.get("wrapper") or []) + [exe, "run", "--scenario", b["scenario"], "--seed-base", str(base), "--list", ",".join(str(i) for i in indices),
           "--backend", b["backend"], "--variant", b["variant"], "--samples", "0"]
    if ORACLES:
        cmd += ["--oracles", ",".join(ORACLES)]
    for k, v in sorted(b.get("opts", {}).items()):
        cmd += ["--opt", "%s=%s" % (k, v)]
    env = dict(os.environ)
    env.update(b.get("env", {}))
    env.update(WORKER_ENV)
    with WORKER_SLOTS:
        try:
            p = subprocess.run(cmd, stdout=subprocess.PIPE, stderr=subprocess.PIPE, timeout=timeout, env=env)
        except subprocess.TimeoutExpired:
            return 0, -999, "TIMEOUT"
    done = sum(1 for line in p.stdout.decode(errors="replace").splitlines() if line.startswith("{"))
    return done, p.returncode, clip(p.stderr.decode(errors="replace"))


def history_dependence(exe, b, base, idx):
    """Is run number idx deterministic on its own AND deterministic after the runs 0..idx-1 of the same process, with different
    results?  Then the library carries state from earlier operations of the process into later ones.  Returns the minimised
    history (list of indices ending in idx) or None."""
    alone1, alone2 = run_list(exe, b, base, [idx]), run_list(exe, b, base, [idx])
    pre = list(range(0, idx + 1))
    h1, h2 = run_list(exe, b, base, pre), run_list(exe, b, base, pre)
    if not alone1 or not alone2 or not h1 or not h2:
        return None
    if alone1 != alone2 or h1[-1] != h2[-1] or alone1[0] == h1[-1]:
        return None
    # minimise: one earlier run that is enough, else halve the prefix
    for j in range(idx - 1, -1, -1):
        t = run_list(exe, b, base, [j, idx])
        if t and t[-1] != alone1[0]:
            t2 = run_list(exe, b, base, [j, idx])
            if t2 == t:
                return [j, idx]
    return pre


def run_batches(exes, batches, base_seed, total_workers=NCPU):
    """Runs batches concurrently, sharing the worker budget."""
    results = [None] * len(batches)
    weights = [max(1, b.get("weight", b["count"])) for b in batches]
    tot = float(sum(weights))
    # chunks per batch: three times the proportional share (the global WORKER_SLOTS semaphore bounds real concurrency, so that
    # cores freed by batches that finish early are used by the chunks of the heavy ones)
    alloc = [max(1, min(total_workers, int(round(3 * total_workers * w / tot)))) for w in weights]
    with cf.ThreadPoolExecutor(max_workers=len(batches)) as ex:
        futs = {}
        for i, b in enumerate(batches):
            seed = batch_base(base_seed, b.get("name", ""), i)
            b["_base"] = seed
            futs[ex.submit(run_batch, exes, b, seed, alloc[i])] = i
        for f in cf.as_completed(futs):
            results[futs[f]] = f.result()
    return results


# ----------------------------------------------------------------------------- replay / gate / minimise
def run_plan(exe, plan_text, backend, variant, timeout=600, wrapper=None):
    with tempfile.NamedTemporaryFile("w", suffix=".plan", delete=False, dir="/tmp") as fh:
        fh.write(plan_text)
        path = fh.name
    try:
        p = subprocess.run(list(wrapper or VALGRIND_IF(variant)) + [exe, "replay", "--plan", path, "--backend", backend, "--variant", variant] +
                           (["--oracles", ",".join(ORACLES)] if ORACLES else []), stdout=subprocess.PIPE,
                           stderr=subprocess.PIPE, timeout=timeout, env=dict(os.environ, **WORKER_ENV))
        out = p.stdout.decode(errors="replace")
        rec = None
        for line in out.splitlines():
            if line.startswith("{"):
                try:
                    rec = json.loads(line)
                except ValueError:
                    pass
        return rec, p.returncode, clip(p.stderr.decode(errors="replace"))
    except subprocess.TimeoutExpired:
        return None, -999, "TIMEOUT"
    finally:
        os.unlink(path)


VALGRIND = ["valgrind", "-q", "--error-exitcode=88", "--leak-check=no", "--num-callers=12"]


def VALGRIND_IF(variant):
    return VALGRIND if variant == "hsw" else []


def classify_death(rc, stderr):
    """violation class of a worker death (sanitizer report, crash)"""
    m = re.search(r"ERROR: AddressSanitizer: ([a-zA-Z0-9_-]+)", stderr)
    if m:
        frames = re.findall(r"#\d+ 0x[0-9a-f]+ in (\S+) (\S+)", stderr)
        where = next((f for f, loc in frames if "libtfhe" in loc or "/src/libtfhe" in loc or "/repo/" in loc), frames[0][0] if frames else "?")
        return "asan:%s" % m.group(1), where
    m = re.search(r"runtime error: ([^\n]+)", stderr)
    if m:
        loc = re.search(r"(\S+\.(?:cpp|c|h)):(\d+)", stderr)
        return "ubsan", (loc.group(0) if loc else "?") + " " + m.group(1)[:80]
    m = re.search(r"==\d+== (Invalid (?:read|write) of size \d+|Conditional jump or move depends on uninitialised value|Use of uninitialised value of size \d+|Invalid free|Mismatched free)", stderr)
    if m:
        frames = re.findall(r"(?:at|by) 0x[0-9A-F]+: (\S+) \(([^)]*)\)", stderr)
        where = next((f for f, loc in frames if "libtfhe" in loc or ".cpp" in loc and "sim/" not in loc), frames[0][0] if frames else "?")
        return "valgrind:%s" % re.sub(r" of size \d+", "", m.group(1)).replace(" ", "-").lower(), where
    m = re.search(r"WARNING: ThreadSanitizer: ([a-zA-Z -]+)", stderr)
    if m:
        frames = re.findall(r"#\d+ (\S+) (\S+)", stderr)
        where = next((f for f, loc in frames if "libtfhe" in loc or "/src/libtfhe" in loc or "/repo/" in loc), frames[0][0] if frames else "?")
        return "tsan:%s" % m.group(1).strip().replace(" ", "-"), where
    m = re.search(r"ERROR: LeakSanitizer", stderr)
    if m:
        return "lsan:leak", "?"
    if "SIM-ERROR" in stderr:
        return "sim-error", stderr[stderr.find("SIM-ERROR"):][:200]
    m = re.search(r"([^\s:]+\.(?:cpp|c|h)):(\d+): ([^\n]*?): Assertion `([^\n]*)' failed", stderr)
    if m:
        return "assert-abort", "%s:%s %s: %s" % (os.path.basename(m.group(1)), m.group(2), m.group(3).split("(")[0].split()[-1], m.group(4))
    if rc == -999:
        return "timeout", "?"
    if rc < 0:
        return "crash:signal%d" % (-rc), "?"
    return "crash:rc%d" % rc, "?"


def same_violation(rec, cls, oracle):
    return rec is not None and rec.get("status") == "violation" and rec["viol"]["cls"] == cls and rec["viol"]["oracle"] == oracle


def minimise(exe, backend, variant, plan_text, cls, oracle, budget=120, death=False):
    """greedy + ddmin over plan lines (ops, switches); keeps the violation class and oracle fixed"""
    lines = plan_text.strip().split("\n")
    head = [l for l in lines if not (l.startswith("op ") or l.startswith("sw "))]
    body = [l for l in lines if l.startswith("op ") or l.startswith("sw ")]
    runs = [0]

    def fails(b, extra_head=None):
        runs[0] += 1
        text = "\n".join((extra_head or head) + b) + "\n"
        rec, rc, err = run_plan(exe, text, backend, variant)
        if death:
            if rec is not None:
                return False
            c, _ = classify_death(rc, err)
            return c == cls
        return same_violation(rec, cls, oracle)

    # explicit schedule: if the plan has switches make it explicit first
    n = 2
    while len(body) >= 2 and runs[0] < budget:
        chunk = max(1, len(body) // n)
        reduced = False
        for s in range(0, len(body), chunk):
            cand = body[:s] + body[s + chunk:]
            if cand and fails(cand):
                body = cand
                n = max(n - 1, 2)
                reduced = True
                break
            if runs[0] >= budget:
                break
        if not reduced:
            if chunk == 1:
                break
            n = min(len(body), n * 2)
    # shrink numeric fault fields towards zero
    for i in range(len(body)):
        if runs[0] >= budget:
            break
        for key in ("da", "db", "dc", "wire", "dup", "alias"):
            m = re.search(r" %s=(-?\d+)" % key, body[i])
            if m and m.group(1) != "0":
                cand = list(body)
                cand[i] = body[i].replace(" %s=%s" % (key, m.group(1)), " %s=0" % key)
                if fails(cand):
                    body = cand
    return "\n".join(head + body) + "\n", runs[0]


# ----------------------------------------------------------------------------- known findings
def load_known():
    path = os.path.join(VERIF, "known_findings.txt")
    known = []
    if os.path.exists(path):
        for line in open(path):
            line = line.strip()
            if not line or line.startswith("#"):
                continue
            m = re.match(r"known: property=(\S+) match=/(.*)/ what=(.*)$", line)
            if m:
                known.append({"property": m.group(1), "re": re.compile(m.group(2)), "what": m.group(3)})
    return known


def match_known(known, prop, text):
    for k in known:
        if k["property"] == prop and k["re"].search(text):
            return k
    return None


# ----------------------------------------------------------------------------- evidence
def merge_counts(dst, src):
    for k, v in src.items():
        dst[k] = dst.get(k, 0) + v


def merge_stats(dst, src):
    for k, v in src.items():
        if k.endswith(".max"):
            dst[k] = max(dst.get(k, 0.0), v)
        else:
            dst[k] = dst.get(k, 0.0) + v


def main():
    args = sys.argv[1:]
    if not args:
        print(__doc__)
        return 2
    tier = os.environ.get("VERIF_TIER", "quick")
    seed = int(os.environ.get("VERIF_SEED", "20260927"))
    prop = args[0]
    i = 1
    extra = {}
    while i < len(args):
        if args[i] == "--tier":
            tier = args[i + 1]; i += 2
        elif args[i] == "--seed":
            seed = int(args[i + 1]); i += 2
        elif args[i] == "--only":
            extra["only"] = args[i + 1]; i += 2
        else:
            extra.setdefault("pos", []).append(args[i]); i += 1
    if tier not in ("quick", "thorough"):
        tier = "quick"
    if prop == "replay":
        return do_replay(extra["pos"][0])
    if prop == "determinism":
        return do_determinism(tier, seed)
    return do_check(prop, tier, seed, extra)


def do_replay(path):
    rp = json.load(open(path))
    global ORACLES
    ORACLES = rp.get("oracles") or (recipes.RECIPES.get(rp.get("property"), {}).get("oracles"))
    th, exes = build.ensure([rp["variant"]], [rp["backend"]])
    exe = exes[(rp["backend"], rp["variant"])]
    if rp.get("kind") == "batch-statistic":
        log("replaying a batch statistic: re-running the batch")
        return do_check(rp["property"], rp["tier"], rp["seed"], {})
    if rp.get("kind") == "history":
        b = {"scenario": rp["scenario"], "backend": rp["backend"], "variant": rp["variant"], "opts": rp.get("opts", {})}
        alone = run_list(exe, b, rp["base"], [rp["indices"][-1]])
        hist = run_list(exe, b, rp["base"], rp["indices"])
        print("replay: run %d alone -> %s ; after run(s) %s in the same process -> %s" % (rp["indices"][-1], alone, rp["indices"][:-1], hist[-1:] if hist else hist))
        if alone and hist and alone[0] != hist[-1]:
            print("VIOLATION property=%s replay=%s" % (rp["property"], path))
            return 1
        print("replay did not reproduce the recorded violation")
        return 0
    if rp.get("kind") == "history-death":
        b = {"scenario": rp["scenario"], "backend": rp["backend"], "variant": rp["variant"], "opts": rp.get("opts", {})}
        done_, rcx, errx = run_list_death(exe, b, rp["base"], rp["indices"])
        c, where = classify_death(rcx, errx)
        print("replay: %d of %d runs completed, then %s at %s (expected %s)" % (done_, len(rp["indices"]), c, where, rp["violation"]["cls"]))
        if done_ == len(rp["indices"]) - 1 and c == rp["violation"]["cls"]:
            print("VIOLATION property=%s replay=%s" % (rp["property"], path))
            return 1
        print("replay did not reproduce the recorded violation")
        return 0
    if rp.get("kind") == "dirty-memory":
        sigs = []
        for fill, env in ((33, "malloc_fill_byte=33:max_malloc_fill_size=1073741824"), (90, "malloc_fill_byte=17:max_malloc_fill_size=1073741824")):
            plan = re.sub(r" perturb=\d+", "", rp["plan"]).replace("\ncfg ", "\ncfg perturb=%d " % fill, 1)
            os.environ["ASAN_OPTIONS"] = env
            rec, rc, err = run_plan(exe, plan, rp["backend"], rp["variant"])
            sigs.append(rec["evhash"] if rec else "died:%s" % rc)
        print("replay: event hashes under two fill patterns:", sigs)
        if sigs[0] != sigs[1]:
            print("VIOLATION property=%s replay=%s" % (rp["property"], path))
            return 1
        print("replay did not reproduce the recorded violation")
        return 0
    rec, rc, err = run_plan(exe, rp["plan"], rp["backend"], rp["variant"])
    if rp.get("death"):
        c, where = classify_death(rc, err)
        ok = rec is None and c == rp["violation"]["cls"]
        print("replay: worker death class=%s at %s (expected %s)" % (c, where, rp["violation"]["cls"]))
    else:
        ok = same_violation(rec, rp["violation"]["cls"], rp["violation"]["oracle"])
        print("replay:", json.dumps(rec.get("viol") if rec else None))
    if ok:
        print("VIOLATION property=%s replay=%s" % (rp["property"], path))
        return 1
    print("replay did not reproduce the recorded violation")
    return 0


def do_determinism(tier, seed):
    """Proof of determinism on a large sample: every seed is executed three times - 1 worker, 16 workers, and 16 workers under
    another heap fill pattern - in separate processes; event-log hashes (decision stream, outputs, schedule) must agree."""
    t0 = time.time()
    batches = recipes.det_batches(tier)
    th, exes = build.ensure(sorted(set(b["variant"] for b in batches)), sorted(set(b["backend"] for b in batches)))
    r1 = run_batches(exes, [dict(b, max_procs=1, weight=1) for b in batches], seed)
    r2 = run_batches(exes, [dict(b, max_procs=16, weight=1) for b in batches], seed)
    r3 = run_batches(exes, [dict(b, max_procs=5, weight=1, opts=dict(b.get("opts", {}), perturb=90)) for b in batches], seed)
    # fourth execution: a fresh process for every single seed (nothing cached, nothing left over from earlier runs), first 16 seeds
    r4 = run_batches(exes, [dict(b, count=min(b["count"], 16), max_procs=16, weight=1) for b in batches], seed)
    sig = lambda x: x["evhash"] + x["status"] + x["sched_hash"] + str(x["steps"])
    rep = {"tier": tier, "seed": seed, "tree": th, "per_scenario": {}, "seeds": 0, "mismatch_workers": 0, "mismatch_fill": 0, "mismatch_fresh_process": 0}
    for b, a, c, d, f in zip(batches, r1, r2, r3, r4):
        ha, hc, hd, hf = ({x["seed"]: sig(x) for x in r[0]} for r in (a, c, d, f))
        mw = sum(1 for s_ in ha if hc.get(s_) != ha[s_])
        mf = sum(1 for s_ in ha if hd.get(s_) != ha[s_])
        mp = sum(1 for s_ in hf if ha.get(s_) != hf[s_])
        rep["per_scenario"][b["name"]] = {"seeds": len(ha), "mismatch_workers": mw, "mismatch_fill": mf, "fresh_process_seeds": len(hf), "mismatch_fresh_process": mp}
        rep["seeds"] += len(ha); rep["mismatch_workers"] += mw; rep["mismatch_fill"] += mf; rep["mismatch_fresh_process"] += mp
    rep["wall_s"] = round(time.time() - t0, 1)
    os.makedirs(os.path.join(OUT, "reports"), exist_ok=True)
    json.dump(rep, open(os.path.join(OUT, "reports", "determinism.json"), "w"), indent=1)
    print("determinism: %d seeds x 3 executions (+ fresh process per seed for 16 of each batch), mismatches: %d across worker counts, %d across heap fill patterns, %d fresh-process (%.0fs)" % (rep["seeds"], rep["mismatch_workers"], rep["mismatch_fill"], rep["mismatch_fresh_process"], rep["wall_s"]))
    return 0 if rep["mismatch_workers"] == 0 and rep["mismatch_fill"] == 0 and rep["mismatch_fresh_process"] == 0 else 2


def do_check(prop, tier, seed, extra):
    t0 = time.time()
    if prop not in recipes.RECIPES:
        log("unknown property", prop)
        return 2
    rc_ = recipes.RECIPES[prop]
    global ORACLES
    ORACLES = rc_.get("oracles")
    batches = rc_["batches"](tier)
    if extra.get("only"):
        batches = [b for b in batches if re.search(extra["only"], b.get("name", ""))]
        # a partial (debugging) run never replaces the evidence of the registered command
        global OUT
        if "VERIF_OUT" not in os.environ:
            OUT = "/tmp/verif-partial"
            log("partial run (--only): evidence and replays go to %s" % OUT)
    variants = sorted(set(b["variant"] for b in batches))
    backends = sorted(set(b["backend"] for b in batches))
    try:
        th, exes = build.ensure(variants, backends)
    except SystemExit as e:
        log(str(e))
        return 2
    log("[%s] tree %s, %d batches, tier %s, seed %d (build %.1fs)" % (prop, th, len(batches), tier, seed, time.time() - t0))
    # ---- determinism preamble: a sample of seeds of every batch kind is executed twice (1 worker and many workers)
    det = {"seeds": 0, "mismatches": 0}
    dirty = []
    history_found = []
    if rc_.get("determinism", True):
        det_batches = []
        for b in batches:
            if b.get("no_determinism"):
                continue
            nb = dict(b)
            nb["count"] = min(b["count"], b.get("det_count", 6 if tier == "quick" else 24))
            nb["weight"] = 1
            det_batches.append(nb)
        if det_batches:
            r1 = run_batches(exes, [dict(b, max_procs=1) for b in det_batches], seed)
            # second execution: other worker count AND another heap fill pattern (dirty-memory differential)
            r2 = run_batches(exes, [dict(b, max_procs=3, opts=dict(b.get("opts", {}), perturb=90),
                                         env=dict(b.get("env", {}), ASAN_OPTIONS="malloc_fill_byte=17:max_malloc_fill_size=1073741824")) for b in det_batches], seed)
            sig = lambda x: x["evhash"] + x["status"] + x["sched_hash"]
            suspects = []
            for bi, ((a, da, _), (b, db, _)) in enumerate(zip(r1, r2)):
                ha = {x["seed"]: sig(x) for x in a}
                hb = {x["seed"]: sig(x) for x in b}
                det["seeds"] += len(ha)
                for s_ in ha:
                    if hb.get(s_) != ha[s_]:
                        suspects.append((bi, s_))
            if suspects:
                # third execution with the configuration of the first: tells simulator non-determinism from a dependence on the heap fill pattern
                r3 = run_batches(exes, [dict(b, max_procs=2) for b in det_batches], seed)
                for bi, s_ in suspects:
                    h1 = {x["seed"]: sig(x) for x in r1[bi][0]}.get(s_)
                    h3 = {x["seed"]: sig(x) for x in r3[bi][0]}.get(s_)
                    if h1 != h3:
                        # deterministic given the process history, different with another history?  (r1 ran all sampled seeds of
                        # the batch in one process in index order)
                        db_ = det_batches[bi]
                        order = [x["seed"] for x in r1[bi][0]]
                        hist = None
                        if s_ in order and not r1[bi][1] and len(history_found) < 4:
                            hist = history_dependence(exes[(db_["backend"], db_["variant"])], db_, batch_base(seed, db_.get("name", ""), bi), order.index(s_))
                        if hist:
                            history_found.append((db_, bi, hist, s_))
                            det.setdefault("process_history_dependent", []).append({"batch": db_.get("name"), "seed": s_, "history_indices": hist})
                            log("PROCESS-HISTORY DEPENDENCE batch %s seed %s: runs %s in one process vs run %d alone" % (db_.get("name"), s_, hist, hist[-1]))
                            continue
                        if history_found and len(history_found) >= 4:
                            det.setdefault("unclassified_after_history_limit", 0)
                            det["unclassified_after_history_limit"] += 1
                            continue
                        det["mismatches"] += 1
                        log("DETERMINISM MISMATCH batch %s seed %s" % (det_batches[bi].get("name"), s_))
                    else:
                        det.setdefault("dirty_memory_dependent", []).append({"batch": det_batches[bi].get("name"), "seed": s_})
                        dirty.append((det_batches[bi], s_))
            if det["mismatches"]:
                # not fatal yet: a use-after-free or an uninitialised read in the code under test looks exactly like this on plain
                # builds; the main batches (sanitizer builds included) run first, and only if they report nothing is the run void
                log("WARNING: %d sampled plans did not reproduce their own event hash; continuing to the main batches" % det["mismatches"])
    # ---- main batches
    results = run_batches(exes, batches, seed)
    known = load_known()
    cov = {"evaluations": 0, "faults_fired": {}, "probes": {}, "stats": {}, "steps": 0, "switches": 0, "per_batch": []}
    distinct, interleavings = set(), set()
    samples = []
    violations = []   # dicts
    for b, (recs, deaths, wall) in zip(batches, results):
        pb = {"name": b.get("name"), "scenario": b["scenario"], "backend": b["backend"], "variant": b["variant"], "opts": b.get("opts", {}),
              "runs": len(recs), "worker_deaths": len(deaths), "wall_s": round(wall, 2), "stats": {}}
        for r in recs:
            cov["evaluations"] += 1
            merge_counts(cov["faults_fired"], r.get("faults", {}))
            merge_counts(cov["probes"], r.get("probes", {}))
            if r.get("other_oracles"):
                oo = cov.setdefault("other_property_oracles", {})
                for kk, vv in r["other_oracles"].items():
                    if kk not in oo:
                        log("note: oracle %s (other property) fired: %s" % (kk, r.get("other_oracle_detail", {}).get(kk, "")[:300]))
                    oo[kk] = oo.get(kk, 0) + vv
            merge_stats(pb["stats"], r.get("stats", {}))
            cov["steps"] += r.get("steps", 0)
            cov["switches"] += r.get("switches", 0)
            if r.get("nontrivial"):
                distinct.add(r["case_hash"])
            if r.get("switches"):
                interleavings.add(r["sched_hash"])
            if "sample" in r and len(samples) < 6 and r.get("nontrivial"):
                smp = {"batch": b.get("name"), "seed": r["seed"], "case": r["sample"], "faults": r.get("faults", {})}
                if "plan" in r and len(samples) < 2:
                    lines = r["plan"].strip().split("\n")
                    smp["plan"] = lines[:40] + (["... (%d more lines)" % (len(lines) - 40)] if len(lines) > 40 else [])
                samples.append(smp)
            if r["status"] == "violation":
                pref = rc_.get("oracles")
                if pref and not any(r["viol"]["oracle"].startswith(x) for x in pref):
                    # an oracle of another property fired in a shared scenario: that property's own check decides it
                    key = r["viol"]["oracle"]
                    cov.setdefault("other_property_oracles", {})
                    cov["other_property_oracles"][key] = cov["other_property_oracles"].get(key, 0) + 1
                    if cov["other_property_oracles"][key] <= 2:
                        log("note: oracle %s (other property) fired: %s" % (key, r["viol"]["detail"][:300]))
                else:
                    violations.append({"batch": b, "rec": r})
        for d in deaths:
            cls, where = classify_death(d["rc"], d["stderr"])
            violations.append({"batch": b, "death": d, "cls": cls, "where": where})
        cov["per_batch"].append(pb)
    if not samples:
        for b, (recs, deaths, wall) in zip(batches, results):
            for r in recs[:2]:
                if "sample" in r:
                    samples.append({"batch": b.get("name"), "seed": r["seed"], "case": r["sample"], "faults": r.get("faults", {})})
    # ---- dirty-memory differential: the same plan gave different observable results under two heap fill patterns
    for b, s_ in dirty:
        if "dirty" in rc_.get("extra_oracles", []):
            violations.append({"dirty": {"batch": b, "seed": s_}})
        else:
            log("note: run %s of batch %s depends on the heap fill pattern (uninitialised read influencing a result): decided by C16" % (s_, b.get("name")))
    # ---- process-history differential: a run is deterministic alone and deterministic after other runs, with different results
    for db_, bi, hist, s_ in history_found:
        if "history" in rc_.get("extra_oracles", []):
            violations.append({"history": {"batch": db_, "bi": bi, "indices": hist, "seed": s_}})
        else:
            log("note: run %s of batch %s depends on what the same process executed before (runs %s): decided by C06" % (s_, db_.get("name"), hist))
    # ---- batch-level oracles (statistics)
    judged = {}
    if "judge" in rc_:
        for v in rc_["judge"](tier, batches, results, cov, judged):
            violations.append({"batch_stat": v})
    # ---- process violations: known findings, gate, minimise, replay files
    os.makedirs(os.path.join(OUT, "replays"), exist_ok=True)
    out_viol = []
    known_hits = {}
    gate_fail = False
    seen_classes = {}
    for v in violations:
        if "batch_stat" in v:
            bs = v["batch_stat"]
            text = "stat|%s|%s" % (bs["oracle"], bs["detail"])
            k = match_known(known, prop, text)
            if k:
                known_hits[k["what"]] = known_hits.get(k["what"], 0) + 1
                continue
            path = os.path.join(OUT, "replays", "%s-stat-%s.json" % (prop, hashlib.sha1(text.encode()).hexdigest()[:10]))
            json.dump({"property": prop, "kind": "batch-statistic", "tier": tier, "seed": seed, "violation": bs, "tree": th,
                       "variant": batches[0]["variant"], "backend": batches[0]["backend"]}, open(path, "w"), indent=1)
            out_viol.append((path, bs["oracle"] + ": " + bs["detail"]))
            continue
        if "history" in v:
            hv = v["history"]; b = hv["batch"]
            text = "process-history|%s|%s|%s" % (b["scenario"], b["backend"], b["variant"])
            k = match_known(known, prop, text)
            if k:
                known_hits[k["what"]] = known_hits.get(k["what"], 0) + 1
                continue
            base_ = batch_base(seed, b.get("name", ""), hv["bi"])
            path = os.path.join(OUT, "replays", "%s-history-%s.json" % (prop, hashlib.sha1(("%s%s%s" % (b.get("name"), base_, hv["indices"])).encode()).hexdigest()[:10]))
            plans = []
            for ix in hv["indices"]:
                cmd = [exes[(b["backend"], b["variant"])], "gen", "--scenario", b["scenario"], "--seed", str(mix64(base_, ix)), "--opt", "run_index=%d" % ix]
                for kk, vv in sorted(b.get("opts", {}).items()):
                    cmd += ["--opt", "%s=%s" % (kk, vv)]
                plans.append(subprocess.run(cmd, stdout=subprocess.PIPE).stdout.decode())
            json.dump({"property": prop, "kind": "history", "scenario": b["scenario"], "backend": b["backend"], "variant": b["variant"], "tree": th,
                       "opts": b.get("opts", {}), "base": base_, "indices": hv["indices"], "plans": plans, "oracles": ORACLES,
                       "violation": {"cls": "history-dependent", "oracle": "C06.process-history",
                                     "detail": "run %d gives one result in a fresh process and another one after run(s) %s of the same process; both are reproducible" % (hv["indices"][-1], hv["indices"][:-1])}},
                      open(path, "w"), indent=1)
            if len([x for x in out_viol if "-history-" in x[0]]) < 3:
                out_viol.append((path, "history-dependent / C06.process-history: batch %s, run %d gives different results alone and after run(s) %s of the same process (both reproducible)" % (b.get("name"), hv["indices"][-1], hv["indices"][:-1])))
            continue
        if "dirty" in v:
            b = v["dirty"]["batch"]
            exe = exes[(b["backend"], b["variant"])]
            cmd = [exe, "gen", "--scenario", b["scenario"], "--seed", str(v["dirty"]["seed"])]
            for kk, vv in sorted(b.get("opts", {}).items()):
                cmd += ["--opt", "%s=%s" % (kk, vv)]
            plan = subprocess.run(cmd, stdout=subprocess.PIPE).stdout.decode()
            text = "dirty-memory|%s|%s|%s" % (b["scenario"], b["backend"], b["variant"])
            k = match_known(known, prop, text)
            if k:
                known_hits[k["what"]] = known_hits.get(k["what"], 0) + 1
                continue
            path = os.path.join(OUT, "replays", "%s-dirty-%s.json" % (prop, hashlib.sha1(plan.encode()).hexdigest()[:10]))
            json.dump({"property": prop, "kind": "dirty-memory", "scenario": b["scenario"], "backend": b["backend"], "variant": b["variant"], "tree": th,
                       "plan": plan, "violation": {"cls": "uninitialised-read", "oracle": "C16.dirty",
                                                   "detail": "the same plan gives different observable results under two heap fill patterns"}}, open(path, "w"), indent=1)
            if len([x for x in out_viol if "dirty" in x[0]]) < 3:
                out_viol.append((path, "uninitialised-read / C16.dirty: plan of seed %s (%s) gives different results under two heap fill patterns" % (v["dirty"]["seed"], b.get("name"))))
            continue
        b = v["batch"]
        exe = exes[(b["backend"], b["variant"])]
        if "death" in v:
            d = v["death"]
            cls, oracle = v["cls"], "worker-death"
            text = None
            detail = "%s in %s; stderr tail: %s" % (cls, v["where"], d["stderr"][-1500:])
            if cls in ("sim-error", "timeout"):
                log("SIM-ERROR worker death without a property verdict:", detail[:2000])
                gate_fail = True
                continue
            # regenerate the plan of the killing seed
            cmd = [exe, "gen", "--scenario", b["scenario"], "--seed", str(d["seed"]), "--opt", "run_index=%d" % d["index"]]
            for kk, vv in sorted(b.get("opts", {}).items()):
                cmd += ["--opt", "%s=%s" % (kk, vv)]
            plan = subprocess.run(cmd, stdout=subprocess.PIPE).stdout.decode()
            cfgline = next((l for l in plan.split("\n") if l.startswith("cfg")), "")
            text = "%s|%s|%s|%s|%s|%s" % (cls, v["where"], b["backend"], b["variant"], b["scenario"], cfgline)
            isdeath = True
        else:
            r = v["rec"]
            cls, oracle = r["viol"]["cls"], r["viol"]["oracle"]
            detail = r["viol"]["detail"]
            if r.get("stderr"):
                detail += "\n" + r["stderr"]
            text = "%s|%s|%s" % (cls, oracle, r["viol"]["detail"])
            plan = r["plan"]
            isdeath = False
        k = match_known(known, prop, text)
        if k:
            known_hits[k["what"]] = known_hits.get(k["what"], 0) + 1
            continue
        key = (cls, oracle)
        seen_classes[key] = seen_classes.get(key, 0) + 1
        if seen_classes[key] > 3:
            suppressed = cov.setdefault("violations_not_minimised", {})
            suppressed[cls + "/" + oracle] = suppressed.get(cls + "/" + oracle, 0) + 1
            continue   # at most three minimised replays per (class, oracle)
        # gate 1: the same plan reproduces in a fresh process
        rec2, rc2, err2 = run_plan(exe, plan, b["backend"], b["variant"])
        if isdeath:
            c2, _ = classify_death(rc2, err2)
            ok = rec2 is None and c2 == cls
        else:
            ok = same_violation(rec2, cls, oracle)
        if not ok and isdeath and "fork" not in b.get("opts", {}):
            # (a) does the death need what the same process executed before?  re-run the dying process from its first run
            d = v["death"]
            idxs = list(range(d.get("proc_first", d["index"]), d["index"] + 1))
            if len(idxs) > 1:
                done_, rcx, errx = run_list_death(exe, b, d["base"], idxs)
                cx, wherex = classify_death(rcx, errx)
                if done_ == len(idxs) - 1 and cx == cls:
                    done2, rcy, erry = run_list_death(exe, b, d["base"], idxs)
                    if done2 == done_ and classify_death(rcy, erry)[0] == cls:
                        hid = hashlib.sha1(("%s%s%s" % (b.get("name"), d["base"], idxs)).encode()).hexdigest()[:10]
                        path = os.path.join(OUT, "replays", "%s-historydeath-%s.json" % (prop, hid))
                        json.dump({"property": prop, "kind": "history-death", "scenario": b["scenario"], "backend": b["backend"], "variant": b["variant"], "tree": th,
                                   "opts": b.get("opts", {}), "base": d["base"], "indices": idxs, "oracles": ORACLES,
                                   "violation": {"cls": cls, "oracle": "worker-death", "detail": "%s in %s after runs %d..%d of the same process (the last plan alone does not die); stderr tail: %s" % (cls, wherex, idxs[0], idxs[-2], errx[-1200:])}},
                                  open(path, "w"), indent=1)
                        out_viol.append((path, "%s / worker-death after a process history of %d runs: %s" % (cls, len(idxs) - 1, errx[-300:])))
                        continue
        if not ok and isdeath:
            # (b) a crash that depends on the address-space layout: more fresh processes
            hits = 0
            for _ in range(4):
                recx, rcx, errx = run_plan(exe, plan, b["backend"], b["variant"])
                if recx is None and classify_death(rcx, errx)[0] == cls:
                    hits += 1
                    err2 = errx
            if hits:
                ok = True
                detail += " [reproduces in %d of 5 fresh processes]" % hits
            else:
                # (c) neither the plan (5 fresh processes) nor the process history reproduces it: nothing to report about the
                # code under test; counted and shown, not a verdict
                tr = cov.setdefault("transient_worker_deaths", [])
                tr.append({"batch": b.get("name"), "class": cls, "seed": v["death"]["seed"], "stderr_tail": v["death"]["stderr"][-1500:]})
                log("TRANSIENT worker death (plan passes in 5 fresh processes, process history passes): %s batch %s seed %s: %s" % (cls, b.get("name"), v["death"]["seed"], v["death"]["stderr"][-1500:]))
                if len(tr) > 3:
                    log("SIM-ERROR: more than three transient worker deaths in one check")
                    gate_fail = True
                continue
        if not ok:
            log("SIM-ERROR: violation did not reproduce from its plan (class %s oracle %s, batch %s): %s" % (cls, oracle, b.get("name"), detail[:3000]))
            gate_fail = True
            continue
        mplan, nruns = minimise(exe, b["backend"], b["variant"], plan, cls, oracle, budget=60 if tier == "quick" else 200, death=isdeath)
        rec3, rc3, err3 = run_plan(exe, mplan, b["backend"], b["variant"])
        if isdeath:
            c3, _ = classify_death(rc3, err3)
            ok3 = rec3 is None and c3 == cls
        else:
            ok3 = same_violation(rec3, cls, oracle)
            if ok3:
                detail = rec3["viol"]["detail"]
        if not ok3:
            mplan = plan
        hid = hashlib.sha1((mplan + cls + oracle).encode()).hexdigest()[:10]
        path = os.path.join(OUT, "replays", "%s-%s.json" % (prop, hid))
        json.dump({"property": prop, "scenario": b["scenario"], "backend": b["backend"], "variant": b["variant"], "tree": th,
                   "violation": {"cls": cls, "oracle": oracle, "detail": detail}, "death": isdeath, "plan": mplan, "oracles": ORACLES,
                   "minimise_runs": nruns, "original_plan_lines": plan.count("\n"), "minimised_plan_lines": mplan.count("\n"),
                   "replay_cmd": "tools/check.py replay " + path}, open(path, "w"), indent=1)
        out_viol.append((path, "%s / %s: %s" % (cls, oracle, detail[:400])))
    # ---- evidence
    cov_out = {
        "evaluations": cov["evaluations"],
        "distinct_nontrivial": len(distinct),
        "rule": rc_["rule"],
        "samples": samples[:6],
        "faults_fired": cov["faults_fired"],
        "probes": cov["probes"],
        "scheduler_steps": cov["steps"],
        "simulated_time": "this code base has no clock or timer: simulated time is the number of scheduler steps / simulated operations (scheduler_steps)",
        "context_switches": cov["switches"],
        "distinct_interleavings": len(interleavings),
        "runs_per_hour": int(cov["evaluations"] / max(1e-9, time.time() - t0) * 3600),
        "determinism_preamble": det,
        "batches": cov["per_batch"],
        "judged_statistics": judged,
        "known_findings_hit": known_hits,
        "other_property_oracles_fired": cov.get("other_property_oracles", {}),
        "violations_not_minimised": cov.get("violations_not_minimised", {}),
        "transient_worker_deaths": cov.get("transient_worker_deaths", []),
        "components": {"real": ["libtfhe-<backend>.so built from /repo/src by the repo's CMake (all evaluation, key generation, serialisation code)", "libfftw3", "glibc stdio", "libstdc++ iostreams"],
                       "simulated": ["client/cloud actors", "byte store and wire (fopencookie FILE*, custom streambuf)", "scheduler", "omniscient observer arithmetic", "entropy/time watchdog"]},
        "tree_hash": th,
    }
    if "coverage_extra" in rc_:
        cov_out.update(rc_["coverage_extra"](tier, batches, results, cov))
    ev = {"property_id": prop, "tier": tier, "seed": seed, "level": rc_["level"], "coverage": cov_out,
          "assumptions": rc_.get("assumptions", []), "wall_s": round(time.time() - t0, 2), "violations": len(out_viol)}
    os.makedirs(os.path.join(OUT, "evidence"), exist_ok=True)
    json.dump(ev, open(os.path.join(OUT, "evidence", prop + ".json"), "w"), indent=1)
    for what, n in sorted(known_hits.items()):
        print("KNOWN-FINDING: property=%s %s (%d occurrences)" % (prop, what, n))
    for path, msg in out_viol:
        print("VIOLATION property=%s replay=%s" % (prop, path))
        print("  " + msg.replace("\n", "\n  "))
    log("[%s] %d runs, %d distinct non-trivial, %d violations, %d known, %.1fs" % (prop, cov["evaluations"], len(distinct), len(out_viol), len(known_hits), time.time() - t0))
    if (gate_fail or det.get("mismatches")) and not out_viol:
        if det.get("mismatches"):
            log("SIM-ERROR: executions are not deterministic and no check explains why; no verdict")
        return 2
    if cov["evaluations"] == 0:
        log("SIM-ERROR: no run completed")
        return 2
    return 1 if out_viol else 0


if __name__ == "__main__":
    sys.exit(main())
