// ELF-interposition seams (DESIGN.md 3.1/3.2).  The simulator executable defines
// the symbols below; the repo's shared library reaches them through its PLT.
#pragma once
#include "core.h"
#include "simsched.h"
#include <setjmp.h>

namespace sim {

enum FnId {
    F_BOOTSTRAP_FFT, F_BOOTSTRAP_WOKS_FFT, F_BOOTSTRAP, F_BOOTSTRAP_WOKS,
    F_KEYSWITCH,
    F_BRE_FFT, F_BRE,          // blindRotateAndExtract
    F_BR_FFT, F_BR,            // blindRotate
    F_MUX_FFT, F_MUX,          // MuxRotate
    F_EXTMUL_FFT, F_EXTMUL, F_EXTPROD,
    F_DECOMP,
    F_EXTRACT,
    F_NFN
};
const char *fn_name(int f);

// observation callback: phase 0 = before the real call, 1 = after.  args = the call's arguments in order
// (pointers stored as void*, integers via intptr_t).
typedef void (*ObsFn)(void *ctx, int fn, int phase, void **args);
void set_observer(ObsFn fn, void *ctx);       // per thread (thread_local)
struct ObserverScope { ObserverScope(ObsFn f, void *c) { set_observer(f, c); } ~ObserverScope() { set_observer(nullptr, nullptr); } };

// call counters per interposed function (monitors report themselves disabled when a symbol is never hit)
uint64_t seam_calls(int fn);
void seam_reset_counts();
uint64_t yield_site_calls(int site);

// entropy / time watchdog: number of calls to rand, random, srand, getrandom, time, clock_gettime, gettimeofday,
// std::random_device, open*("/dev/*random") made by this thread between begin and end
void watch_begin();
uint64_t watch_end(std::string *what = nullptr);
uint64_t watch_clock_reads();   // clock reads seen inside watch windows on this thread (reported, not judged)

// in-process capture of process-terminating outcomes of an import (C18)
enum Outcome { O_RETURNED = 0, O_ABORT, O_NULLDEREF, O_EXCEPTION, O_WILDSEGV };
const char *outcome_name(int o);
// runs fn(); returns how it ended.  O_WILDSEGV = fault at an address >= 4096 (never acceptable)
Outcome guarded_call(void (*fn)(void *), void *arg, uintptr_t *fault_addr = nullptr);
void install_signal_handlers();
void set_trig_yields(bool on);   // sin/cos/sincos called by the library become scheduling points (cold-process runs only)

} // namespace sim
